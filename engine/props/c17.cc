// C17 — gwb-dat prints exactly the library's values under its column headers.
#include "../gen.h"

#include <sys/wait.h>
#include <iterator>

using namespace vf;
namespace WB = WorldBuilder;

static int run_cmd(const std::string &cmd, std::string &out)
{
  out.clear();
  FILE *p = popen(cmd.c_str(), "r");
  if (!p) return -1;
  char buf[4096];
  while (size_t n = fread(buf, 1, sizeof buf, p)) out.append(buf, n);
  const int st = pclose(p);
  return WIFEXITED(st) ? WEXITSTATUS(st) : 128 + (WIFSIGNALED(st) ? WTERMSIG(st) : 0);
}
static std::string print6(double v) { std::ostringstream o; o << v; return o.str(); } // the tool prints with the stream's default precision

static std::string spell(Chooser &ch, double v)
{
  char b[64];
  switch (ch.range(0, 3))
    {
      case 0: std::snprintf(b, sizeof b, "%.17g", v); break;
      case 1: std::snprintf(b, sizeof b, "%.10e", v); break;
      case 2: std::snprintf(b, sizeof b, "%.3f", v); break;
      default: std::snprintf(b, sizeof b, "%.9g", v); break;
    }
  return b;
}

static J gen_dat(Chooser &ch)
{
  g::Opt o;
  o.min_features = 1; o.max_features = 4;
  o.operations = true; o.cross_section = ch.flip() ? 2 : 0; o.global_constants = ch.chance(30);
  g::GW w = g::gen_world(ch, o);
  J c = J::obj();
  c["world"] = w.root.dump();
  const bool has_cs = w.root.has("cross section");
  const int dim = has_cs && ch.chance(60) ? 2 : 3;
  c["dim"] = dim;
  c["compositions"] = static_cast<int>(ch.range(0, 5));
  c["grain_compositions"] = static_cast<int>(ch.range(0, 2));
  c["n_grains"] = static_cast<int>(ch.range(0, 3));
  // 'convert spherical' is a property of the data file, not of the world: R, longitude, latitude rows are converted to x, y, z for
  // cartesian worlds as well (20% of them)
  const bool conv = dim == 3 && (w.fr.sph ? ch.chance(60) : ch.chance(20));
  c["convert_spherical"] = conv;
  c["comma"] = ch.flip();
  c["sph"] = w.fr.sph; c["R"] = w.fr.R; c["H"] = w.fr.H;
  c["option_order"] = static_cast<int>(ch.range(0, 5));
  if (ch.chance(30)) c["remarks"] = static_cast<int>(ch.range(1, 31));
  // the documentation gives option lines no fixed place: 30% of the files carry some of them between or after the data rows
  if (ch.chance(30)) { c["late_options"] = static_cast<int>(ch.range(1, 4)); c["late_after"] = static_cast<int>(ch.range(0, 30)); }
  J rows = J::arr();
  const int n = static_cast<int>(ch.range(1, 30));
  for (int i = 0; i < n; ++i)
    {
      J q = g::gen_query(ch, w, ch.chance(85) ? &w.feats[ch.index(w.feats.size())] : nullptr);
      const double depth = q.at("depth").num();
      J r = J::arr();
      if (dim == 2)
        {
          double x, z;
          if (w.fr.sph) { const double th = ch.real(-5, 20) * DEG, rr = w.fr.R - depth; x = rr * std::cos(th); z = rr * std::sin(th); }
          else
            {
              // project the aimed query on the section so that rows hit the features
              const J &cs = w.root.at("cross section");
              const double ax = cs[0][0].num(), ay = cs[0][1].num(), bx = cs[1][0].num(), by = cs[1][1].num(), un = std::sqrt((bx - ax) * (bx - ax) + (by - ay) * (by - ay));
              x = ((q.at("nat")[0].num() - ax) * (bx - ax) + (q.at("nat")[1].num() - ay) * (by - ay)) / un; z = w.fr.H - depth;
            }
          r.push(J(spell(ch, x))); r.push(J(spell(ch, z))); r.push(J(spell(ch, depth)));
        }
      else if (conv && w.fr.sph) { r.push(J(spell(ch, w.fr.R - depth))); r.push(J(spell(ch, q.at("nat")[0].num()))); r.push(J(spell(ch, q.at("nat")[1].num()))); r.push(J(spell(ch, depth))); }
      else if (conv)
        {
          // the cartesian point written as radius, longitude, latitude (degrees)
          const double X = q.at("p")[0].num(), Y = q.at("p")[1].num(), Z = q.at("p")[2].num(), rr = std::sqrt(X * X + Y * Y + Z * Z);
          r.push(J(spell(ch, rr))); r.push(J(spell(ch, std::atan2(Y, X) / DEG))); r.push(J(spell(ch, rr > 0 ? std::asin(Z / rr) / DEG : 0.0))); r.push(J(spell(ch, depth)));
        }
      else { r.push(J(spell(ch, q.at("p")[0].num()))); r.push(J(spell(ch, q.at("p")[1].num()))); r.push(J(spell(ch, q.at("p")[2].num()))); r.push(J(spell(ch, depth))); }
      rows.push(r);
      if (ch.chance(15)) rows.push(J("# a comment line " + std::to_string(i)));
    }
  c["rows"] = rows;
  return c;
}

static std::string dat_text(const J &c, const J *override_rows = nullptr)
{
  std::vector<std::string> opts;
  opts.push_back("# dim = " + std::to_string(static_cast<int>(c.at("dim").num())));
  opts.push_back("# compositions = " + std::to_string(static_cast<int>(c.at("compositions").num())));
  if (c.at("grain_compositions").num() > 0 || c.at("n_grains").num() > 0)
    {
      opts.push_back("# grain compositions = " + std::to_string(static_cast<int>(c.at("grain_compositions").num())));
      opts.push_back("# number of grains = " + std::to_string(static_cast<int>(c.at("n_grains").num())));
    }
  if (c.at("convert_spherical").boolean()) opts.push_back("# convert spherical = true");
  std::rotate(opts.begin(), opts.begin() + static_cast<long>(static_cast<size_t>(c.at("option_order").num()) % opts.size()), opts.end());
  // a remark behind the value, as in the repository's own '# convert spherical = false #true' (the tool reads fixed positions)
  if (c.has("remarks")) for (size_t i = 0; i < opts.size(); ++i) if ((static_cast<size_t>(c.at("remarks").num()) >> i) & 1u) opts[i] += (i % 2 ? " # as used in the paper" : " #remark");
  std::string t = "# generated data file\n";
  const size_t n_late = c.has("late_options") ? std::min(opts.size(), static_cast<size_t>(c.at("late_options").num())) : 0;
  for (size_t i = 0; i + n_late < opts.size(); ++i) t += opts[i] + "\n";
  const std::string sep = c.at("comma").boolean() ? ", " : " ";
  const J &rows = override_rows ? *override_rows : c.at("rows");
  const size_t late_after = n_late ? std::min(rows.size(), static_cast<size_t>(c.at("late_after").num())) : rows.size() + 1;
  size_t ri = 0;
  bool late_done = false;
  for (const auto &r : rows.a)
    {
      if (n_late && !late_done && ri == late_after) { for (size_t i = opts.size() - n_late; i < opts.size(); ++i) t += opts[i] + "\n"; late_done = true; }
      ++ri;
      if (r.is_str()) { t += r.str() + "\n"; continue; }
      for (size_t i = 0; i < r.size(); ++i) t += (i ? sep : "") + r[i].str();
      t += "\n";
    }
  if (n_late && !late_done) for (size_t i = opts.size() - n_late; i < opts.size(); ++i) t += opts[i] + "\n";
  return t;
}

static std::vector<std::string> tokens(const std::string &line)
{
  std::istringstream b(line);
  return std::vector<std::string>((std::istream_iterator<std::string>(b)), std::istream_iterator<std::string>());
}

static Result check_dat(const J &c)
{
  Result r;
  const std::string exe = env("VERIF_GWB_DAT", "");
  if (exe.empty()) throw std::runtime_error("VERIF_GWB_DAT not set");
  const std::string dir = scratch_dir() + "/c17";
  { std::string cmd = "mkdir -p '" + dir + "'"; if (std::system(cmd.c_str())) {} }
  write_file(dir + "/w.wb", c.at("world").str());
  write_file(dir + "/d.dat", dat_text(c));
  std::string out;
  const int rc = run_cmd("'" + exe + "' '" + dir + "/w.wb' '" + dir + "/d.dat' 2>/dev/null", out);
  const int dim = static_cast<int>(c.at("dim").num());
  const unsigned ncomp = static_cast<unsigned>(c.at("compositions").num()), ngc = static_cast<unsigned>(c.at("grain_compositions").num()), ng = static_cast<unsigned>(c.at("n_grains").num());
  auto W = make_world(c.at("world").str());
  // the property list the tool documents through its header: T, velocity, compositions, grains, tag
  PropList pl = {{{1, 0, 0}}, {{5, 0, 0}}};
  for (unsigned k = 0; k < ncomp; ++k) pl.push_back({{2, k, 0}});
  for (unsigned k = 0; k < ngc; ++k) pl.push_back({{3, k, ng}});
  pl.push_back({{4, 0, 0}});
  std::vector<std::string> lines;
  { std::istringstream is(out); std::string l; while (std::getline(is, l)) lines.push_back(l); }
  if (rc != 0)
    {
      // the tool lets library exceptions end the program: if the library itself refuses one of the rows, there is no table to judge
      try
        {
          for (const auto &row : c.at("rows").a)
            {
              if (row.is_str()) continue;
              const double depth = std::stod(row[static_cast<size_t>(dim)].str());
              if (dim == 2) W->properties(std::array<double, 2>{{std::stod(row[0].str()), std::stod(row[1].str())}}, depth, pl);
              else
                {
                  std::array<double, 3> p{{std::stod(row[0].str()), std::stod(row[1].str()), std::stod(row[2].str())}};
                  if (c.at("convert_spherical").boolean()) p = sph2cart(p[0], p[1] * DEG, p[2] * DEG);
                  W->properties(p, depth, pl);
                }
            }
        }
      catch (const std::exception &) { r.discard = true; r.classes.push_back("library throws for a row"); return r; }
    }
  if (rc != 0 || lines.empty()) return Result::fail("dat-run-failed", "gwb-dat ended with status " + std::to_string(rc) + " on a well-formed data file: " + out.substr(0, 300));
  std::vector<std::string> header = tokens(lines[0]);
  if (header.empty() || header[0] != "#") return Result::fail("dat-no-header", "first output line is not a header: " + lines[0]);
  header.erase(header.begin());
  r.classes.push_back("dim=" + std::to_string(dim) + (c.at("convert_spherical").boolean() ? " convert spherical" : ""));
  // names the statement implies, in order
  std::vector<std::string> want_names = dim == 2 ? std::vector<std::string>{"x", "z", "d", "T", "vx", "vz"} : std::vector<std::string>{"x", "y", "z", "d", "T", "vx", "vy", "vz"};
  for (unsigned k = 0; k < ncomp; ++k) want_names.push_back("c" + std::to_string(k));
  for (unsigned gc = 0; gc < ngc; ++gc)
    for (unsigned g0 = 0; g0 < ng; ++g0)
      {
        want_names.push_back("gs" + std::to_string(gc) + "-" + std::to_string(g0));
        for (int a = 0; a < 3; ++a) for (int b = 0; b < 3; ++b) want_names.push_back("gm" + std::to_string(gc) + "-" + std::to_string(g0) + "[" + std::to_string(a) + ":" + std::to_string(b) + "]");
      }
  want_names.push_back("tag");
  std::string deferred_sig, deferred_msg;
  auto defer = [&](const std::string &sig, const std::string &msg) { if (deferred_sig.empty()) { deferred_sig = sig; deferred_msg = msg; } else if (deferred_sig.find(sig) == std::string::npos) deferred_sig += "+" + sig; };
  const bool header_ok = header == want_names;
  if (!header_ok)
    {
      // listed finding: the 3D header announces a column "g" after "d" that the rows do not contain
      std::vector<std::string> with_g = want_names;
      if (dim == 3) with_g.insert(with_g.begin() + 4, "g");
      if (dim == 3 && header == with_g) defer("dat-3d-header-announces-g", "the 3D header line announces a column 'g' (" + lines[0].substr(0, 60) + "...) that no row contains: every value from T on stands under the wrong name");
      else return Result::fail("dat-header", "header is '" + lines[0] + "', the requested columns are " + std::to_string(want_names.size()) + " names starting x.. and ending tag");
    }
  size_t li = 1;
  for (const auto &row : c.at("rows").a)
    {
      if (row.is_str()) continue;
      if (li >= lines.size()) return Result::fail("dat-missing-row", "gwb-dat printed " + std::to_string(lines.size() - 1) + " rows, the data file has more");
      const std::vector<std::string> tk = tokens(lines[li++]);
      // library values for this row
      std::vector<double> lib;
      const double depth = std::stod(row[static_cast<size_t>(dim)].str());
      double tagv;
      if (dim == 2) lib = W->properties(std::array<double, 2>{{std::stod(row[0].str()), std::stod(row[1].str())}}, depth, pl);
      else
        {
          std::array<double, 3> p{{std::stod(row[0].str()), std::stod(row[1].str()), std::stod(row[2].str())}};
          if (c.at("convert_spherical").boolean()) p = sph2cart(p[0], p[1] * DEG, p[2] * DEG);
          lib = W->properties(p, depth, pl);
        }
      tagv = lib.back();
      r.inner++;
      // the row as the statement describes it: input tokens, then T, velocity (2 or 3 components), compositions, grains, tag
      std::vector<std::string> want;
      for (size_t i = 0; i <= static_cast<size_t>(dim); ++i) want.push_back(row[i].str());
      want.push_back(print6(lib[0]));
      for (int k = 0; k < (dim == 2 ? 2 : 3); ++k) want.push_back(print6(lib[1 + static_cast<size_t>(k)]));
      for (unsigned k = 0; k < ncomp; ++k) want.push_back(print6(lib[4 + k]));
      for (unsigned gc = 0; gc < ngc; ++gc)
        {
          // the header names grain by grain: size, then the nine matrix entries (the library stores all sizes first)
          const size_t start = 4 + ncomp + gc * ng * 10;
          for (unsigned g0 = 0; g0 < ng; ++g0)
            {
              want.push_back(print6(lib[start + g0]));
              for (unsigned a = 0; a < 9; ++a) want.push_back(print6(lib[start + ng + g0 * 9 + a]));
            }
        }
      want.push_back(print6(lib.back()));
      int nonzero_groups = (lib[0] != 0) + (lib[1] != 0 || lib[2] != 0 || lib[3] != 0);
      for (unsigned k = 0; k < ncomp; ++k) if (lib[4 + k] != 0) { nonzero_groups++; break; }
      if (tagv != -1 && nonzero_groups >= 2) { r.nontrivial = true; r.inner_nt++; }
      if (tk == want) continue;
      if (c.at("convert_spherical").boolean() && tk.size() == want.size())
        {
          // the tool converts (R, lon, lat) to a cartesian point itself; this harness repeats the conversion, and the two points
          // can differ in the last bit: compare the printed numbers numerically (print precision) instead of as text
          bool all_close = true;
          for (size_t i = 0; i < tk.size() && all_close; ++i)
            if (tk[i] != want[i])
              {
                char *e1 = nullptr, *e2 = nullptr;
                const double a = std::strtod(tk[i].c_str(), &e1), b = std::strtod(want[i].c_str(), &e2);
                if (*e1 || *e2 || i <= static_cast<size_t>(dim) || !close_rel(a, b, 3e-6, 1e-12)) all_close = false;
              }
          if (all_close) continue;
        }
      // listed finding: in 2D the tool reads compositions from slot 3+c and grains from 3+compositions+..., although the
      // velocity block occupies three slots: every composition/grain column shows the value of the slot before it
      if (dim == 2)
        {
          std::vector<std::string> shifted;
          for (size_t i = 0; i <= 2; ++i) shifted.push_back(row[i].str());
          shifted.push_back(print6(lib[0])); shifted.push_back(print6(lib[1])); shifted.push_back(print6(lib[2]));
          for (unsigned k = 0; k < ncomp; ++k) shifted.push_back(print6(lib[3 + k]));
          for (unsigned gc = 0; gc < ngc; ++gc)
            {
              const size_t start = 3 + ncomp + gc * ng * 10;
              for (unsigned g0 = 0; g0 < ng; ++g0)
                {
                  shifted.push_back(print6(lib[start + g0]));
                  for (unsigned a = 0; a < 9; ++a) shifted.push_back(print6(lib[start + ng + g0 * 9 + a]));
                }
            }
          shifted.push_back(print6(lib.back()));
          if (tk == shifted && (ncomp > 0 || (ngc > 0 && ng > 0)))
            {
              defer("dat-2d-composition-grain-columns-shifted", "2D row '" + lines[li - 1].substr(0, 120) + "': the composition/grain columns hold the values of the neighbouring slot (c0 shows the third velocity slot)");
              continue;
            }
        }
      // which column differs
      size_t bad = 0;
      while (bad < tk.size() && bad < want.size() && tk[bad] == want[bad]) ++bad;
      return Result::fail(tk.size() != want.size() ? "dat-row-length" : (bad <= static_cast<size_t>(dim) ? "dat-input-echo" : "dat-row-values"),
                          "row '" + lines[li - 1].substr(0, 200) + "' differs from the library's values in column " + std::to_string(bad) + " (" + (bad < want_names.size() ? want_names[bad] : "?") + "): printed '" + (bad < tk.size() ? tk[bad] : "<missing>") + "', library '" + (bad < want.size() ? want[bad] : "<none>") + "'");
    }
  if (li != lines.size()) return Result::fail("dat-extra-rows", "gwb-dat printed more rows than the data file contains");
  if (!deferred_sig.empty()) { Result f = Result::fail(deferred_sig, deferred_msg); f.nontrivial = r.nontrivial; f.classes = r.classes; f.inner = r.inner; f.inner_nt = r.inner_nt; return f; }
  return r;
}

// ---------------------------------------------------------------- malformed rows are reported, not silently misread
static J gen_malformed(Chooser &ch)
{
  J c = gen_dat(ch);
  if (ch.chance(20))
    {
      // an option combination the documentation excludes: 'convert spherical = true' is only allowed in 3D. Every order of the
      // option lines is generated (dat_text rotates them), so the refusal must not depend on which line comes first.
      for (int attempt = 0; attempt < 12 && c.at("dim").num() != 2; ++attempt) c = gen_dat(ch);
      if (c.at("dim").num() == 2)
        {
          c["convert_spherical"] = true;
          c["kind"] = 3;
          return c;
        }
    }
  // break one data row
  std::vector<size_t> idx;
  for (size_t i = 0; i < c.at("rows").size(); ++i) if (c.at("rows")[i].is_arr()) idx.push_back(i);
  const size_t k = idx[ch.index(idx.size())];
  J &row = c["rows"][k];
  const int kind = static_cast<int>(ch.range(0, 2));
  if (kind == 0) row.a.pop_back();                       // too few columns
  else if (kind == 1) row.a.push_back(J("1.5"));         // too many columns
  else row[ch.index(row.size())] = J(ch.pick<std::string>({"abc", "1.2.3", "--5", "1e", "x12", "120e3m", "7d5", "15:30", "1e5km", "0x1p3z", ",", ",,"})); // not a number
  c["kind"] = kind;
  return c;
}
static Result check_malformed(const J &c)
{
  Result r;
  const std::string exe = env("VERIF_GWB_DAT", "");
  const std::string dir = scratch_dir() + "/c17";
  { std::string cmd = "mkdir -p '" + dir + "'"; if (std::system(cmd.c_str())) {} }
  write_file(dir + "/w.wb", c.at("world").str());
  write_file(dir + "/m.dat", dat_text(c));
  std::string out;
  const int rc = run_cmd("'" + exe + "' '" + dir + "/w.wb' '" + dir + "/m.dat' 2>&1", out);
  r.nontrivial = true; r.inner = r.inner_nt = 1;
  r.classes.push_back("kind=" + std::to_string(static_cast<int>(c.at("kind").num())));
  // reported = non-zero exit status or an error message; a clean table with the full number of rows means the row was misread silently
  size_t data_rows = 0;
  for (auto &row : c.at("rows").a) if (row.is_arr()) data_rows++;
  size_t printed = 0;
  { std::istringstream is(out); std::string l; bool first = true; while (std::getline(is, l)) { if (first) { first = false; continue; } if (!l.empty() && l.find("rror") == std::string::npos && l.find("what()") == std::string::npos && l.find("terminate") == std::string::npos) printed++; } }
  const bool reported = rc != 0 || out.find("rror") != std::string::npos || out.find("AssertThrow") != std::string::npos;
  if (!reported && printed >= data_rows)
    return Result::fail(c.at("kind").num() == 3 ? "dat-2d-convert-spherical-accepted" : "dat-malformed-row-accepted", c.at("kind").num() == 3 ? std::string("a 2D data file with 'convert spherical = true' (documented as only allowed in 3D) produced a complete table and exit status 0; option lines: ") + dat_text(c).substr(0, 160) : "a data file with a malformed row (kind " + std::to_string(static_cast<int>(c.at("kind").num())) + ") produced a complete table and exit status 0");
  return r;
}

int main(int argc, char **argv)
{
  return run_main("C17", argc, argv,
  {
    {"dat_table", "worlds (1..4 features, optional cross section) x data files: dim 2/3, 0..5 compositions, 0..2 grain compositions x 0..3 grains, convert spherical, comma or space separated, option lines in any order, (30%) partly between or after the data rows, (30%) with a remark behind the value, convert spherical also for cartesian worlds, comment lines interleaved, 1..30 rows with coordinates spelled in four number formats; oracle: header names = the requested columns, every row = input tokens verbatim + the library's values printed with the stream's default precision. Non-trivial: row inside a feature with non-zero values in >=2 column groups", 40, gen_dat, check_dat},
    {"malformed_rows", "the same with one row broken (too few / too many columns, a token that is not a number or only starts like one: 'abc', '1.2.3', '120e3m', '7d5', '15:30', or an empty field ','), or (20%) a 2D file that sets 'convert spherical = true' with the option lines in any order: the tool must exit non-zero or print an error, never a complete table", 25, gen_malformed, check_malformed},
  });
}
