// C19 — geometric kernels agree with their brute-force definitions.
#include "../wb_util.h"

#include "world_builder/kd_tree.h"
#include "world_builder/objects/bezier_curve.h"

using namespace vf;
using WorldBuilder::Point;
namespace WB = WorldBuilder;

// ---------------------------------------------------------------- kd-tree
static J gen_kdtree(Chooser &ch)
{
  J c = J::obj();
  const int n = static_cast<int>(ch.range(1, 300));
  const int mode = static_cast<int>(ch.range(0, 2)); // 0 lattice (many ties, equal coordinates), 1 random, 2 clustered
  J pts = J::arr();
  for (int i = 0; i < n; ++i)
    {
      double x, y;
      if (mode == 0) { x = static_cast<double>(ch.range(-6, 6)); y = static_cast<double>(ch.range(-6, 6)); }
      else if (mode == 1) { x = ch.real(-1e6, 1e6); y = ch.real(-1e6, 1e6); }
      else { x = static_cast<double>(ch.range(-2, 2)) * 1e5 + ch.real(-10, 10); y = static_cast<double>(ch.range(-2, 2)) * 1e5 + ch.real(-10, 10); }
      pts.push(jp(x, y));
    }
  J qs = J::arr();
  const int nq = static_cast<int>(ch.range(1, 12));
  for (int i = 0; i < nq; ++i)
    {
      if (mode == 0) qs.push(jp(static_cast<double>(ch.range(-14, 14)) * 0.5, static_cast<double>(ch.range(-14, 14)) * 0.5));
      else if (ch.chance(30)) { const J &p = pts[ch.index(pts.size())]; qs.push(jp(p[0].num(), p[1].num())); }
      else qs.push(jp(ch.real(-1.5e6, 1.5e6), ch.real(-1.5e6, 1.5e6)));
    }
  // the unit of the coordinates: metres as generated, or scaled by a power of two (exact) down to the size of radians and below -
  // nearest-node distances are then far below 1, where a distance and its square order differently against a coordinate difference
  const double scale = mode == 0 ? ch.pick<double>({1.0, 1.0, 0.25, 1.0 / 64, 1.0 / 1024, 1024.0}) : ch.pick<double>({1.0, 1.0, std::ldexp(1.0, -20), std::ldexp(1.0, -26), std::ldexp(1.0, -14)});
  for (auto &p : pts.a) { p[0] = J(p[0].num() * scale); p[1] = J(p[1].num() * scale); }
  for (auto &p : qs.a) { p[0] = J(p[0].num() * scale); p[1] = J(p[1].num() * scale); }
  c["scale"] = scale;
  c["nodes"] = pts;
  c["queries"] = qs;
  return c;
}

static Result check_kdtree(const J &c)
{
  Result r;
  std::vector<WB::KDTree::Node> nodes;
  for (size_t i = 0; i < c.at("nodes").size(); ++i) nodes.emplace_back(i, c.at("nodes")[i][0].num(), c.at("nodes")[i][1].num());
  WB::KDTree::KDTree tree(nodes);
  tree.create_tree(0, nodes.size() - 1, false);
  // the tree must hold a permutation of the input
  {
    std::vector<int> seen(nodes.size(), 0);
    for (auto &n : tree.get_nodes())
      {
        if (n.index >= nodes.size() || seen[n.index]++) return Result::fail("kdtree-permutation", "tree nodes are not a permutation of the input");
        if (n.x != nodes[n.index].x || n.y != nodes[n.index].y) return Result::fail("kdtree-permutation", "tree node coordinates changed");
      }
  }
  r.nontrivial = nodes.size() >= 3;
  r.classes.push_back(nodes.size() < 3 ? "n<3" : (nodes.size() < 30 ? "n<30" : "n>=30"));
  if (c.has("scale") && c.at("scale").num() < 1) r.classes.push_back("coordinates scaled below 1 (radian-sized and smaller)");
  for (const auto &q : c.at("queries").a)
    {
      const Point<2> cp(q[0].num(), q[1].num(), WB::cartesian);
      double best = HUGE_VAL;
      for (auto &n : nodes) best = std::min(best, std::sqrt((n.x - cp[0]) * (n.x - cp[0]) + (n.y - cp[1]) * (n.y - cp[1])));
      const auto a = tree.find_closest_point(cp);
      const auto b = tree.find_closest_points(cp);
      r.inner += 2;
      if (a.index >= nodes.size() || b.min_index >= nodes.size()) return Result::fail("kdtree-index", "returned index out of range");
      const auto &na = tree.get_nodes()[a.index];
      const double da = std::sqrt((na.x - cp[0]) * (na.x - cp[0]) + (na.y - cp[1]) * (na.y - cp[1]));
      if (a.distance != best || da != best)
        return Result::fail("kdtree-nearest", "find_closest_point distance " + fmt(a.distance) + " (node at " + fmt(da) + ") but brute force minimum " + fmt(best) + " for query " + q.dump());
      const auto &nb = tree.get_nodes()[b.min_index];
      const double db = std::sqrt((nb.x - cp[0]) * (nb.x - cp[0]) + (nb.y - cp[1]) * (nb.y - cp[1]));
      if (b.min_distance != best || db != best)
        return Result::fail("kdtree-nearest-points", "find_closest_points min distance " + fmt(b.min_distance) + " but brute force minimum " + fmt(best) + " for query " + q.dump());
      // every visited entry must report the true distance of the node it names
      for (auto &e : b.vector)
        {
          if (e.index >= nodes.size()) return Result::fail("kdtree-index", "visited index out of range");
          const auto &ne = tree.get_nodes()[e.index];
          const double de = std::sqrt((ne.x - cp[0]) * (ne.x - cp[0]) + (ne.y - cp[1]) * (ne.y - cp[1]));
          if (de != e.distance) return Result::fail("kdtree-visited", "visited list distance mismatch");
        }
    }
  r.inner_nt = r.nontrivial ? r.inner : 0;
  return r;
}

// ---------------------------------------------------------------- polygon test, exact integer oracle
// coordinates are integers (in units of half lattice steps for the query point)
struct IP { long long x, y; };
static long long cross(IP a, IP b, IP c) { return (b.x - a.x) * (c.y - a.y) - (b.y - a.y) * (c.x - a.x); }
static bool on_seg(IP a, IP b, IP p)
{
  return cross(a, b, p) == 0 && std::min(a.x, b.x) <= p.x && p.x <= std::max(a.x, b.x) && std::min(a.y, b.y) <= p.y && p.y <= std::max(a.y, b.y);
}
static int sgn(long long v) { return (v > 0) - (v < 0); }
static bool seg_intersect(IP a, IP b, IP c, IP d)
{
  const int d1 = sgn(cross(a, b, c)), d2 = sgn(cross(a, b, d)), d3 = sgn(cross(c, d, a)), d4 = sgn(cross(c, d, b));
  if (d1 * d2 < 0 && d3 * d4 < 0) return true;
  return on_seg(a, b, c) || on_seg(a, b, d) || on_seg(c, d, a) || on_seg(c, d, b);
}
static bool simple_polygon(const std::vector<IP> &v)
{
  const size_t n = v.size();
  if (n < 3) return false;
  long long area2 = 0;
  for (size_t i = 0; i < n; ++i) { const IP &a = v[i], &b = v[(i + 1) % n]; area2 += a.x * b.y - a.y * b.x; if (a.x == b.x && a.y == b.y) return false; }
  if (area2 == 0) return false;
  for (size_t i = 0; i < n; ++i)
    for (size_t j = i + 1; j < n; ++j)
      {
        const IP a = v[i], b = v[(i + 1) % n], c = v[j], d = v[(j + 1) % n];
        if (j == i + 1 || (i == 0 && j == n - 1))
          {
            // adjacent edges share exactly one vertex; they may not overlap
            const IP shared = (j == i + 1) ? b : a;
            const IP o1 = (j == i + 1) ? a : b;
            const IP o2 = (j == i + 1) ? d : c;
            if (cross(shared, o1, o2) == 0 && ((o1.x - shared.x) * (o2.x - shared.x) + (o1.y - shared.y) * (o2.y - shared.y)) > 0) return false;
            continue;
          }
        if (seg_intersect(a, b, c, d)) return false;
      }
  return true;
}
// closed polygon membership: on the boundary, or crossing number odd (exact)
static bool exact_inside(const std::vector<IP> &v, IP p)
{
  const size_t n = v.size();
  for (size_t i = 0; i < n; ++i) if (on_seg(v[i], v[(i + 1) % n], p)) return true;
  bool in = false;
  for (size_t i = 0, j = n - 1; i < n; j = i++)
    {
      const IP a = v[i], b = v[j];
      if ((a.y > p.y) != (b.y > p.y))
        {
          // x coordinate of the crossing compared with p.x, exactly: p.x < a.x + (p.y-a.y)*(b.x-a.x)/(b.y-a.y)
          const long long lhs = (p.x - a.x) * (b.y - a.y), rhs = (p.y - a.y) * (b.x - a.x);
          if ((b.y - a.y) > 0 ? lhs < rhs : lhs > rhs) in = !in;
        }
    }
  return in;
}

static Result check_polygon_case(const std::vector<IP> &poly_half, double scale, double ox, double oy, int lo, int hi, bool spherical_alias, Result r)
{
  // poly_half: vertices in half steps (even numbers); real coordinate = ox + scale*0.5*v
  std::vector<Point<2>> pl;
  const WB::CoordinateSystem cs = spherical_alias ? WB::spherical : WB::cartesian;
  for (auto &v : poly_half) pl.emplace_back(ox + scale * 0.5 * static_cast<double>(v.x), oy + scale * 0.5 * static_cast<double>(v.y), cs);
  for (int x = lo; x <= hi; ++x)
    for (int y = lo; y <= hi; ++y)
      {
        const IP p{x, y};
        const bool want = exact_inside(poly_half, p);
        const Point<2> q(ox + scale * 0.5 * x, oy + scale * 0.5 * y, cs);
        const bool got = WB::Utilities::polygon_contains_point(pl, q);
        r.inner++;
        if (want) r.inner_nt++;
        if (want != got)
          {
            std::string s = "polygon [";
            for (auto &v : poly_half) s += "(" + std::to_string(v.x) + "," + std::to_string(v.y) + ")";
            s += "] (half-step units, scale " + fmt(scale) + ", origin " + fmt(ox) + "," + fmt(oy) + ") point (" + std::to_string(x) + "," + std::to_string(y) + "): exact oracle says " + (want ? "inside" : "outside") + ", code says " + (got ? "inside" : "outside");
            return Result::fail(want ? "polygon-false-negative" : "polygon-false-positive", s);
          }
      }
  return r;
}

static J gen_polygon(Chooser &ch)
{
  J c = J::obj();
  const int L = static_cast<int>(ch.range(3, 8)); // lattice 0..L
  std::vector<IP> v;
  // construction with bounded retry inside the generator (keeps the discard rate of the property near zero)
  for (int attempt = 0; attempt < 40; ++attempt)
    {
      const bool star = ch.chance(75);
      // general (non star-shaped) polygons are kept only if simple: small k keeps the rejection rate low
      const int k = static_cast<int>(star ? ch.range(3, 9) : ch.range(3, 4));
      v.clear();
      for (int i = 0; i < k; ++i) v.push_back({ch.range(0, L), ch.range(0, L)});
      if (star)
        {
          // angular sort around an interior quarter-lattice point => star-shaped (possibly concave) polygon
          const double cx = static_cast<double>(ch.range(0, 2 * L)) * 0.5 + 0.25, cy = static_cast<double>(ch.range(0, 2 * L)) * 0.5 + 0.25;
          std::sort(v.begin(), v.end(), [&](IP a, IP b) {
            const double aa = std::atan2(static_cast<double>(a.y) - cy, static_cast<double>(a.x) - cx), ab = std::atan2(static_cast<double>(b.y) - cy, static_cast<double>(b.x) - cx);
            if (aa != ab) return aa < ab;
            return (a.x - cx) * (a.x - cx) + (a.y - cy) * (a.y - cy) < (b.x - cx) * (b.x - cx) + (b.y - cy) * (b.y - cy);
          });
          v.erase(std::unique(v.begin(), v.end(), [](IP a, IP b) { return a.x == b.x && a.y == b.y; }), v.end());
        }
      std::vector<IP> dbl;
      for (auto &p : v) dbl.push_back({2 * p.x, 2 * p.y});
      if (simple_polygon(dbl)) break;
      v = {{0, 0}, {L, 0}, {0, L}};
    }
  if (ch.flip()) std::reverse(v.begin(), v.end());
  const size_t rot = ch.index(v.size());
  std::rotate(v.begin(), v.begin() + static_cast<long>(rot), v.end());
  J jv = J::arr();
  for (auto &p : v) jv.push(jp(static_cast<double>(p.x), static_cast<double>(p.y)));
  c["vertices"] = jv;
  c["L"] = L;
  // scales that keep every product exact: powers of two times small integers
  c["scale"] = ch.pick<double>({1.0, 1000.0, 0.25, 65536.0, 3.0, 1e5});
  c["ox"] = ch.pick<double>({0.0, -4.0, 1024.0, -3e6});
  c["oy"] = ch.pick<double>({0.0, 8.0, -2048.0, 5e6});
  return c;
}
static Result check_polygon(const J &c)
{
  Result r;
  std::vector<IP> v;
  for (auto &p : c.at("vertices").a) v.push_back({2 * p[0].i64(), 2 * p[1].i64()});
  if (!simple_polygon(v)) { r.discard = true; return r; }
  const int L = static_cast<int>(c.at("L").num());
  r.nontrivial = true;
  bool convex = true;
  {
    int s = 0;
    for (size_t i = 0; i < v.size(); ++i)
      {
        const int t = sgn(cross(v[i], v[(i + 1) % v.size()], v[(i + 2) % v.size()]));
        if (t != 0) { if (s != 0 && t != s) convex = false; s = t; }
      }
  }
  long long area2 = 0;
  for (size_t i = 0; i < v.size(); ++i) area2 += v[i].x * v[(i + 1) % v.size()].y - v[i].y * v[(i + 1) % v.size()].x;
  r.classes.push_back(convex ? "convex" : "concave");
  r.classes.push_back(area2 > 0 ? "counter-clockwise" : "clockwise");
  r.classes.push_back("vertices=" + std::to_string(v.size()));
  const double scale = c.at("scale").num();
  // origin offsets are used only with scales for which (origin + scale*k/2) is exact in double
  return check_polygon_case(v, scale, c.at("ox").num() * scale, c.at("oy").num() * scale, -3, 2 * L + 3, false, r);
}

// exhaustive enumeration: every ordered k-gon (k=3..kmax) on the n x n lattice that is simple,
// tested at every lattice and half-lattice point of the enlarged box
static J gen_polygon_exhaustive(Chooser &ch)
{
  J c = J::obj();
  (void)ch;
  const bool thorough = env("VERIF_TIER", "quick") == "thorough";
  // fixed enumerations, each complete for its (n,kmax): quick 3x3 lattice up to pentagons, thorough 4x4 up to quadrilaterals + 3x3 hexagons
  J l = J::arr();
  if (thorough) { l.push(J::arr({J(4), J(4)})); l.push(J::arr({J(3), J(6)})); }
  else l.push(J::arr({J(3), J(5)}));
  c["enumerations"] = l;
  return c;
}
static Result check_polygon_exhaustive(const J &c)
{
  Result r;
  r.nontrivial = true;
  for (const auto &en : c.at("enumerations").a)
  {
  const int n = static_cast<int>(en[0].num()), kmax = static_cast<int>(en[1].num());
  const int N = n * n;
  uint64_t polys = 0;
  for (int k = 3; k <= kmax; ++k)
    {
      std::vector<int> idx(static_cast<size_t>(k), 0);
      for (;;)
        {
          // canonical: first vertex has the smallest index (rotations are the same polygon walked from another start; both orientations kept)
          bool canon = true;
          for (int i = 1; i < k; ++i) if (idx[static_cast<size_t>(i)] <= idx[0]) { canon = false; break; }
          if (canon)
            {
              std::vector<IP> v;
              for (int i = 0; i < k; ++i) v.push_back({2 * (idx[static_cast<size_t>(i)] % n), 2 * (idx[static_cast<size_t>(i)] / n)});
              if (simple_polygon(v))
                {
                  ++polys;
                  r = check_polygon_case(v, 1.0, 0, 0, -1, 2 * (n - 1) + 1, false, r);
                  if (!r.ok) return r;
                }
            }
          int pos = k - 1;
          while (pos >= 0 && ++idx[static_cast<size_t>(pos)] == N) { idx[static_cast<size_t>(pos)] = 0; --pos; }
          if (pos < 0) break;
        }
    }
  r.classes.push_back("exhaustive n=" + std::to_string(n) + " kmax=" + std::to_string(kmax) + " polygons=" + std::to_string(polys));
  }
  return r;
}

// ---------------------------------------------------------------- Bezier curve
static std::vector<Point<2>> gen_polyline(Chooser &ch, bool spherical, J &out)
{
  // polyline with bends <= 60 degrees
  const int n = static_cast<int>(ch.range(2, 7));
  std::vector<Point<2>> pts;
  double heading = ch.real(-PI, PI);
  double x, y;
  if (spherical) { x = ch.real(-170, 170) * DEG; y = ch.real(-60, 60) * DEG; }
  else { x = ch.real(-2e6, 2e6); y = ch.real(-2e6, 2e6); }
  const WB::CoordinateSystem cs = spherical ? WB::spherical : WB::cartesian;
  pts.emplace_back(x, y, cs);
  for (int i = 1; i < n; ++i)
    {
      if (i > 1) heading += ch.real(-60, 60) * DEG;
      const double len = spherical ? ch.real(0.5, 8) * DEG : ch.real(5e4, 1e6);
      x += len * std::cos(heading);
      y += len * std::sin(heading);
      if (spherical) { y = std::max(-80 * DEG, std::min(80 * DEG, y)); }
      pts.emplace_back(x, y, cs);
    }
  J jp_ = J::arr();
  for (auto &p : pts) jp_.push(jp(p[0], p[1]));
  out["points"] = jp_;
  return pts;
}

static J gen_bezier(Chooser &ch, bool spherical)
{
  J c = J::obj();
  c["spherical"] = spherical;
  auto pts = gen_polyline(ch, spherical, c);
  // 15%: an arc that is mirror-symmetric about the meridian (x = const) through its middle coordinate, with 3 or 5 coordinates,
  // queried on that axis: by symmetry the closest point is exactly the middle coordinate, i.e. the joint of two curve segments
  // (parameter 1 of one, 0 of the next) - the place where each segment's acceptance interval has to hand over to the other
  if (ch.chance(15))
    {
      const WB::CoordinateSystem cs = spherical ? WB::spherical : WB::cartesian;
      const double xc = spherical ? ch.real(-170, 170) * DEG : ch.real(-2e6, 2e6), yc = spherical ? ch.real(-50, 50) * DEG : ch.real(-2e6, 2e6);
      const double u = spherical ? DEG : 1e5;
      const double a1 = ch.real(1, 6) * u, b1 = ch.real(-2, 2) * u, a2 = a1 + ch.real(1, 6) * u, b2 = b1 + ch.real(-2, 2) * u;
      const bool five = ch.flip();
      pts.clear();
      if (five) pts.emplace_back(xc - a2, yc + b2, cs);
      pts.emplace_back(xc - a1, yc + b1, cs);
      pts.emplace_back(xc, yc, cs);
      pts.emplace_back(xc + a1, yc + b1, cs);
      if (five) pts.emplace_back(xc + a2, yc + b2, cs);
      J jp_ = J::arr();
      for (auto &p : pts) jp_.push(jp(p[0], p[1]));
      c["points"] = jp_;
      J qs = J::arr();
      const int nq = static_cast<int>(ch.range(2, 8));
      for (int i = 0; i < nq; ++i) qs.push(jp(xc, yc + (ch.flip() ? 1 : -1) * ch.real(0.05, 2.5) * u));
      // plus ordinary queries beside the arc
      for (int i = 0; i < 3; ++i) qs.push(jp(xc + ch.real(-1, 1) * a1, yc + ch.real(-2, 2) * u));
      c["queries"] = qs;
      c["symmetric"] = true;
      return c;
    }
  J qs = J::arr();
  const int nq = static_cast<int>(ch.range(1, 10));
  for (int i = 0; i < nq; ++i)
    {
      // a point near a random place of the polyline, offset by up to 300 km (or the equivalent angle)
      const size_t s = ch.index(pts.size() - 1);
      const double t = ch.real(0.02, 0.98);
      const double off = spherical ? ch.real(-2.7, 2.7) * DEG : ch.real(-3e5, 3e5);
      const Point<2> d = pts[s + 1] - pts[s];
      const double dn = d.norm();
      const double px = pts[s][0] + t * d[0] - off * d[1] / dn, py = pts[s][1] + t * d[1] + off * d[0] / dn;
      qs.push(jp(px, py));
    }
  c["queries"] = qs;
  return c;
}

static double hav_dist(double lon1, double lat1, double lon2, double lat2)
{
  const double a = std::sin((lat2 - lat1) / 2) * std::sin((lat2 - lat1) / 2) + std::cos(lat1) * std::cos(lat2) * std::sin((lon2 - lon1) / 2) * std::sin((lon2 - lon1) / 2);
  return 2 * std::asin(std::min(1.0, std::sqrt(a)));
}

static Result check_bezier(const J &c)
{
  Result r;
  const bool spherical = c.at("spherical").boolean();
  const WB::CoordinateSystem cs = spherical ? WB::spherical : WB::cartesian;
  std::vector<Point<2>> pts;
  for (auto &p : c.at("points").a) pts.emplace_back(p[0].num(), p[1].num(), cs);
  // domain: bends <= 60 degrees, segments not degenerate
  for (size_t i = 1; i + 1 < pts.size(); ++i)
    {
      const Point<2> a = pts[i] - pts[i - 1], b = pts[i + 1] - pts[i];
      if (a.norm() <= 0 || b.norm() <= 0) { r.discard = true; return r; }
      const double cosb = (a * b) / (a.norm() * b.norm());
      if (cosb < std::cos(60.0 * DEG) - 1e-12) { r.discard = true; return r; }
    }
  if ((pts[1] - pts[0]).norm() <= 0) { r.discard = true; return r; }
  if (spherical) for (auto &p : pts) if (std::fabs(p[1]) > 80.5 * DEG || std::fabs(p[0]) > 2 * PI) { r.discard = true; return r; }
  WB::Objects::BezierCurve curve(pts);
  const double L = [&] { double s = 0; for (size_t i = 0; i + 1 < pts.size(); ++i) s += (pts[i + 1] - pts[i]).norm(); return s; }();
  // (1) passes through its coordinates
  for (size_t i = 0; i + 1 < pts.size(); ++i)
    {
      const Point<2> a = curve(i, 0.0), b = curve(i, 1.0);
      r.inner += 2;
      if ((a - pts[i]).norm() > 1e-12 * (1 + pts[i].norm()) || (b - pts[i + 1]).norm() > 1e-12 * (1 + pts[i + 1].norm()))
        return Result::fail("bezier-interpolation", "curve does not pass through coordinate " + std::to_string(i));
    }
  r.classes.push_back(std::string(spherical ? "spherical" : "cartesian") + " n=" + std::to_string(pts.size()));
  if (c.has("symmetric")) r.classes.push_back("symmetric arc queried on its axis (foot at a joint)");
  // dense sampling of the whole curve
  const int S = 4000;
  std::vector<Point<2>> dense;
  dense.reserve((pts.size() - 1) * static_cast<size_t>(S + 1));
  for (size_t i = 0; i + 1 < pts.size(); ++i)
    for (int k = 0; k <= S; ++k) dense.push_back(curve(i, static_cast<double>(k) / S));
  auto dist = [&](const Point<2> &a, const Point<2> &b) { return spherical ? hav_dist(a[0], a[1], b[0], b[1]) : (a - b).norm(); };
  for (auto &q : c.at("queries").a)
    {
      const Point<2> cp(q[0].num(), q[1].num(), cs);
      if (spherical && std::fabs(cp[1]) > 85 * DEG) continue;
      // true foot by dense sampling; require it to be interior to the curve (not the first or last sample)
      size_t best = 0;
      double bd = HUGE_VAL;
      for (size_t k = 0; k < dense.size(); ++k) { const double d = dist(dense[k], cp); if (d < bd) { bd = d; best = k; } }
      const size_t margin = static_cast<size_t>(S) / 50;
      if (best < margin || best + margin >= dense.size()) { r.classes.push_back("foot-at-curve-end(skipped)"); continue; }
      const auto res = curve.closest_point_on_curve_segment(cp);
      r.inner++;
      r.inner_nt++;
      r.nontrivial = true;
      if (!std::isfinite(res.distance))
        {
          // Which root cause? The search runs one Newton iteration per segment, started at the planar projection of the point on the
          // segment's chord. If the distance along the owning segment is not unimodal and that start lies in another basin than the
          // foot (downhill from the start leads away from it), the iteration leaves the segment and nothing is reported: the listed
          // single-start finding. Otherwise (the iteration is led to the foot and the foot is still not reported) it is something else.
          const size_t seg = std::min(best / static_cast<size_t>(S + 1), pts.size() - 2);
          const double t_foot = static_cast<double>(best % static_cast<size_t>(S + 1)) / S;
          Point<2> near = cp;
          if (spherical) { while (near[0] - pts[0][0] > PI) near[0] -= 2 * PI; while (near[0] - pts[0][0] < -PI) near[0] += 2 * PI; }
          const Point<2> ch = pts[seg + 1] - pts[seg], pc = near - pts[seg];
          const double est0 = std::min(1.0, std::max(0.0, (pc * ch) / (ch * ch)));
          const double h = 1e-5, slope = (dist(curve(seg, est0 + h), cp) - dist(curve(seg, est0 - h), cp)) / (2 * h);
          const bool leaves_basin = (t_foot - est0) * (-slope) < 0 && std::fabs(t_foot - est0) > 1e-3;
          return Result::fail(std::string(spherical ? "bezier-spherical-" : "bezier-cartesian-") + (leaves_basin ? "single-start-leaves-the-basin-of-the-foot" : "no-foot"),
                              "no closest point reported although dense sampling finds an interior foot at distance " + fmt(bd) + " (segment " + std::to_string(seg) + ", parameter " + fmt(t_foot) + "; the Newton start is at parameter " + fmt(est0) + " where the distance " + (slope > 0 ? "increases" : "decreases") + " with the parameter) for query " + q.dump());
        }
      if (res.index + 1 >= pts.size() || !(res.parametric_fraction >= -1e-6 && res.parametric_fraction <= 1 + 1e-6))
        return Result::fail("bezier-parameter", "reported index/parameter out of range");
      const Point<2> on = curve(res.index, res.parametric_fraction);
      if ((on - res.point).norm() > 1e-9 * (1 + L))
        return Result::fail("bezier-point-not-on-curve", "reported point differs from curve(index, parameter) by " + fmt((on - res.point).norm()));
      const double dr = dist(res.point, cp);
      if (!spherical && std::fabs(std::fabs(res.distance) - dr) > 1e-9 * (1 + L))
        return Result::fail("bezier-distance-inconsistent", "reported |distance| " + fmt(res.distance) + " but point is at " + fmt(dr));
      // 'noticeably closer': by more than 1e-5 of the distance plus 1e-6 of the curve length (the Newton
      // iteration stops at a parameter change of 1e-4, so differences of this order are its stated accuracy)
      if (dr > bd + 1e-6 * L + 1e-5 * bd)
        {
          // classify: is the reported point at least a local minimiser of the distance along the curve?
          // (walk away from it in steps of 1e-3 of a segment, up to 1e-2: a lower point counts against it only if no higher
          // point - a barrier, however low - lies on the way; basins can be as shallow as 1e-8 of the curve length)
          bool local_min = true;
          for (double sg : {-1.0, 1.0})
            {
              bool barrier = false;
              for (int k = 1; k <= 10 && !barrier; ++k)
                {
                  double tt = res.parametric_fraction + sg * k * 1e-3;
                  size_t ii = res.index;
                  if (tt < 0) { if (ii == 0) break; ii--; tt += 1; }
                  if (tt > 1) { if (ii + 2 >= pts.size()) break; ii++; tt -= 1; }
                  const double dk = dist(curve(ii, tt), cp);
                  if (dk > dr + 1e-9 * L) barrier = true;
                  else if (dk < dr - 1e-9 * L) { local_min = false; break; }
                }
            }
          if (local_min)
            return Result::fail(spherical ? "bezier-spherical-local-minimum-not-global" : "bezier-cartesian-local-minimum-not-global",
                                "the reported closest point is only a local minimiser of the distance along the curve: it is at " + fmt(dr) + " while a sampled curve point is at " + fmt(bd) + " (curve length " + fmt(L) + "), query " + q.dump());
          // a mirror-symmetric arc queried on its axis: the middle coordinate is a stationary point of the distance by symmetry, the
          // iteration starts exactly there and stops (derivative zero) although it is a maximum between two symmetric minima
          if (c.has("symmetric") && std::fabs(res.point[0] - pts[pts.size() / 2][0]) <= 1e-12 * (1 + std::fabs(res.point[0])) && std::fabs(cp[0] - pts[pts.size() / 2][0]) <= 1e-12 * (1 + std::fabs(cp[0])))
            return Result::fail(spherical ? "bezier-spherical-stationary-point-on-symmetry-axis" : "bezier-cartesian-stationary-point-on-symmetry-axis",
                                "the reported closest point is the middle coordinate of a mirror-symmetric arc (a stationary point of the distance, here a local maximum along the curve): it is at " + fmt(dr) + " while a sampled curve point is at " + fmt(bd) + " (curve length " + fmt(L) + "), query " + q.dump());
          return Result::fail(spherical ? "bezier-spherical-not-closest" : "bezier-cartesian-not-closest",
                            "a sampled curve point is closer (" + fmt(bd) + ") than the reported closest point (" + fmt(dr) + "), curve length " + fmt(L) + ", query " + q.dump());
        }
    }
  return r;
}

// ---------------------------------------------------------------- cartesian <-> spherical round trip
static J gen_roundtrip(Chooser &ch)
{
  J c = J::obj();
  const int kind = static_cast<int>(ch.range(0, 5));
  double r = ch.logreal(1, 1e8), lon = ch.real(-PI, PI), lat = ch.real(-PI / 2, PI / 2);
  if (kind == 1) lat = PI / 2;
  if (kind == 2) lat = -PI / 2;
  if (kind == 3) lon = PI;
  if (kind == 4) lon = -PI;
  if (kind == 5) { lon = ch.pick<double>({0, PI / 2, -PI / 2}); lat = ch.pick<double>({0.0, PI / 4}); }
  c["r"] = r; c["lon"] = lon; c["lat"] = lat; c["kind"] = kind;
  return c;
}
static Result check_roundtrip(const J &c)
{
  Result r;
  const double R = c.at("r").num(), lon = c.at("lon").num(), lat = c.at("lat").num();
  r.nontrivial = true;
  r.classes.push_back("kind=" + std::to_string(static_cast<int>(c.at("kind").num())));
  const std::array<double, 3> s{{R, lon, lat}};
  const Point<3> p = WB::Utilities::spherical_to_cartesian_coordinates(s);
  const auto ref = sph2cart(R, lon, lat);
  r.inner = 3;
  for (size_t i = 0; i < 3; ++i)
    if (std::fabs(p[i] - ref[i]) > 1e-12 * R) return Result::fail("sph2cart", "spherical_to_cartesian component " + std::to_string(i) + " = " + fmt(p[i]) + ", definition gives " + fmt(ref[i]));
  const auto back = WB::Utilities::cartesian_to_spherical_coordinates(p);
  if (std::fabs(back[0] - R) > 1e-12 * R) return Result::fail("roundtrip-radius", "radius " + fmt(back[0]) + " vs " + fmt(R));
  // acos near the poles loses half the digits: tolerance on the *position*, which is what callers use
  const auto p2_ = sph2cart(back[0], back[1], back[2]);
  double d = 0;
  for (size_t i = 0; i < 3; ++i) d += (p2_[i] - ref[i]) * (p2_[i] - ref[i]);
  if (std::sqrt(d) > 1e-7 * R) return Result::fail("roundtrip-position", "round trip moved the point by " + fmt(std::sqrt(d)) + " (r=" + fmt(R) + ")");
  if (std::fabs(lat) < 1.4)
    {
      if (std::fabs(back[2] - lat) > 1e-12) return Result::fail("roundtrip-lat", "latitude " + fmt(back[2]) + " vs " + fmt(lat));
      double dl = std::fabs(back[1] - lon);
      if (dl > PI) dl = 2 * PI - dl;
      if (dl > 1e-12) return Result::fail("roundtrip-lon", "longitude " + fmt(back[1]) + " vs " + fmt(lon));
    }
  return r;
}

// ---------------------------------------------------------------- great circle distance
static std::unique_ptr<WB::World> &sph_world()
{
  static std::unique_ptr<WB::World> w = make_world("{\"version\":\"1.1\",\"coordinate system\":{\"model\":\"spherical\",\"depth method\":\"starting point\"},\"features\":[]}", 1, "c19sph");
  return w;
}
static J gen_gc(Chooser &ch)
{
  J c = J::obj();
  c["r"] = ch.logreal(1e3, 1e7);
  c["lon1"] = ch.real(-PI, PI); c["lat1"] = ch.real(-PI / 2, PI / 2);
  if (ch.chance(45))
    {
      // force pairs more than 90 degrees apart: start from the antipode and perturb
      c["lon2"] = c["lon1"].num() + PI + ch.real(-1.2, 1.2);
      c["lat2"] = std::max(-PI / 2, std::min(PI / 2, -c["lat1"].num() + ch.real(-0.3, 0.3)));
    }
  else { c["lon2"] = ch.real(-PI, PI); c["lat2"] = ch.real(-PI / 2, PI / 2); }
  // 12%: the ends of the range, where the dot product of the unit vectors rounds to just outside [-1, 1]: exactly opposite points
  // (and a hair off), identical points, pole to pole
  if (ch.chance(12))
    {
      const int k = static_cast<int>(ch.range(0, 4));
      if (k == 0) { c["lon2"] = c["lon1"].num() + (c["lon1"].num() > 0 ? -PI : PI); c["lat2"] = -c["lat1"].num(); }
      else if (k == 1) { c["lon2"] = c["lon1"].num() + PI + ch.real(-1e-8, 1e-8); c["lat2"] = -c["lat1"].num() + ch.real(-1e-8, 1e-8); }
      else if (k == 2) { c["lon2"] = c["lon1"]; c["lat2"] = c["lat1"]; }
      else if (k == 3) { c["lat1"] = PI / 2; c["lat2"] = -PI / 2; }
      else { c["lon1"] = ch.lattice(-180, 180, 15) * DEG; c["lat1"] = ch.lattice(-90, 90, 15) * DEG; c["lon2"] = c["lon1"].num() + PI; c["lat2"] = -c["lat1"].num(); }
      c["lat2"] = std::max(-PI / 2, std::min(PI / 2, c["lat2"].num()));
    }
  return c;
}
static Result check_gc(const J &c)
{
  Result r;
  const double R = c.at("r").num();
  const double lon1 = c.at("lon1").num(), lat1 = c.at("lat1").num(), lon2 = c.at("lon2").num(), lat2 = c.at("lat2").num();
  const auto a = sph2cart(1, lon1, lat1), b = sph2cart(1, lon2, lat2);
  const double cr[3] = {a[1] * b[2] - a[2] * b[1], a[2] * b[0] - a[0] * b[2], a[0] * b[1] - a[1] * b[0]};
  const double ang = std::atan2(std::sqrt(cr[0] * cr[0] + cr[1] * cr[1] + cr[2] * cr[2]), a[0] * b[0] + a[1] * b[1] + a[2] * b[2]);
  const double got = sph_world()->parameters.coordinate_system->distance_between_points_at_same_depth(Point<3>(R, lon1, lat1, WB::spherical), Point<3>(R, lon2, lat2, WB::spherical));
  r.inner = 1;
  r.nontrivial = ang > 1e-3;
  r.inner_nt = r.nontrivial;
  r.classes.push_back(ang > PI / 2 ? ">90deg" : "<=90deg");
  if (ang > PI - 1e-6) r.classes.push_back("(nearly) opposite points");
  if (!std::isfinite(got)) return Result::fail("great-circle-not-finite", "distance " + fmt(got) + " for points " + fmt(ang) + " rad apart (radius " + fmt(R) + ")");
  // acos-based formula: the cosine carries a few roundings (~5e-16), which the arc cosine turns into an absolute angular error of
  // sqrt(2 * 5e-16) = 3e-8 for identical and for opposite points (measured 3.3e-8 for an antipodal pair), far less in between
  if (std::fabs(got - R * ang) > R * 1e-7)
    return Result::fail(ang > PI / 2 ? "great-circle-beyond-90" : "great-circle", "distance " + fmt(got) + " but great-circle distance is " + fmt(R * ang) + " (angle " + fmt(ang) + " rad)");
  return r;
}

int main(int argc, char **argv)
{
  return run_main("C19", argc, argv,
  {
    {"kdtree", "random/lattice/clustered node sets (1..300), coordinates in metres or scaled by powers of two down to radian size and below, x queries; singular and plural search; non-trivial: >=3 nodes; oracle: brute-force minimum distance (any minimiser)", 3000, gen_kdtree, check_kdtree},
    {"polygon_lattice", "simple lattice polygons (star-shaped by construction or rejection-filtered general, 3..9 vertices, both orientations) x all lattice and half-lattice points of the enlarged box; exact integer oracle, boundary included; non-trivial: polygon is simple", 1500, gen_polygon, check_polygon},
    {"polygon_exhaustive", "complete enumeration of all simple k-gons on an n x n lattice x all lattice/half-lattice points (one case = one full enumeration)", 1, gen_polygon_exhaustive, check_polygon_exhaustive, 100, false},
    {"bezier_cartesian", "polylines 2..7 points, bends <=60deg, queries within 300 km with interior foot; 15% mirror-symmetric arcs of 3 or 5 coordinates queried on their axis (foot exactly at a joint of two segments); oracle: 4000-sample/segment dense sampling; non-trivial: interior foot", 600, [](Chooser &ch) { return gen_bezier(ch, false); }, check_bezier},
    {"bezier_spherical", "same in lon/lat radians with great-circle (haversine) metric", 600, [](Chooser &ch) { return gen_bezier(ch, true); }, check_bezier},
    {"sph_roundtrip", "r in [1,1e8], all lon/lat incl. poles and +-180", 20000, gen_roundtrip, check_roundtrip},
    {"great_circle", "pairs of points on a sphere, 45% forced >90deg apart, 12% exactly / nearly opposite, identical or pole to pole; oracle atan2(|axb|,a.b)", 20000, gen_gc, check_gc},
  });
}
