// C12 — malformed or inconsistent input is rejected by an exception, never by a crash (semantic part;
// the byte-level and sanitizer part lives in engine/fuzz).
#include "../gen.h"
#include "../schema_walk.h"

#include <sys/wait.h>

using namespace vf;
namespace WB = WorldBuilder;

static J g_schema; // the schema emitted by the tree under test

static void load_schema()
{
  // emitted by a child process so that this process never runs library code
  const std::string dir = scratch_dir() + "/schema/";
  { std::string cmd = "mkdir -p '" + dir + "'"; if (std::system(cmd.c_str())) {} }
  const pid_t pid = fork();
  if (pid == 0)
    {
      try
        {
          write_file(dir + "min.wb", "{\"version\":\"1.1\",\"features\":[]}");
          WB::World w(dir + "min.wb", true, dir);
        }
      catch (...) { _exit(1); }
      _exit(0);
    }
  int st = 0;
  waitpid(pid, &st, 0);
  g_schema = J::parse_file(dir + "world_builder_declarations.schema.json");
}

// constructs the world; returns "" if it was built, otherwise "threw: <what>"; never lets anything escape
static std::string try_build(const std::string &text, std::unique_ptr<WB::World> *out = nullptr)
{
  try
    {
      auto w = make_world(text);
      if (out) *out = std::move(w);
      return "";
    }
  catch (const std::exception &e)
    {
      const std::string what = e.what();
      return "threw: " + (what.empty() ? std::string("<empty message>") : what.substr(0, 300));
    }
}

// ---------------------------------------------------------------- (ii) violations of the published schema
static J gen_schema_violation(Chooser &ch)
{
  g::Opt o;
  o.min_features = 1; o.max_features = 4;
  o.operations = true; o.model_ranges = true; o.cross_section = 1; o.global_constants = ch.flip(); o.water = true; o.random_models = ch.chance(30);
  g::GW w = g::gen_world(ch, o);
  J c = J::obj();
  c["valid"] = w.root.dump();
  J doc = w.root;
  std::vector<ObjectSite> objs;
  std::vector<ValueSite> vals;
  Path p;
  collect_sites(doc, g_schema, p, objs, vals);
  const int kind = static_cast<int>(ch.range(0, 4));
  std::string what;
  if (kind == 0)
    {
      // unknown key in an object whose schema node forbids additional properties
      std::vector<const ObjectSite *> cand;
      for (auto &s : objs) if (s.schema->has("additionalProperties") && s.schema->at("additionalProperties").t == J::Bool && !s.schema->at("additionalProperties").b) cand.push_back(&s);
      if (!cand.empty())
        {
          const ObjectSite &s = *cand[ch.index(cand.size())];
          std::string key = ch.pick<std::string>({"no such key", "Model", "temperature", "max  depth", "Name"});
          if (s.schema->has("properties") && s.schema->at("properties").has(key)) key = "no such key"; // must be unknown to *this* object
          (*resolve(doc, s.path))[key] = ch.flip() ? J(1.0) : J("x");
          what = "unknown key '" + key + "' in " + path_str(s.path);
        }
    }
  else if (kind == 1)
    {
      // remove a key the schema lists as required
      std::vector<std::pair<const ObjectSite *, std::string>> cand;
      for (auto &s : objs)
        if (s.schema->has("required"))
          for (auto &rk : s.schema->at("required").a) if (resolve(doc, s.path)->has(rk.str())) cand.emplace_back(&s, rk.str());
      if (!cand.empty())
        {
          auto &pr = cand[ch.index(cand.size())];
          resolve(doc, pr.first->path)->erase(pr.second);
          what = "required key '" + pr.second + "' removed from " + path_str(pr.first->path);
        }
    }
  else if (kind == 2)
    {
      // wrong JSON type for a property whose schema node has a plain "type"
      std::vector<const ValueSite *> cand;
      for (auto &v : vals) if (v.schema->has("type") && v.schema->at("type").is_str()) cand.push_back(&v);
      if (!cand.empty())
        {
          const ValueSite &v = *cand[ch.index(cand.size())];
          const std::string t = v.schema->at("type").str();
          J repl;
          if (t == "number" || t == "integer") repl = ch.flip() ? J("12") : J::arr({J(1.0)});
          else if (t == "string") repl = ch.flip() ? J(5.0) : J(true);
          else if (t == "array") repl = ch.flip() ? J(3.0) : J("[]");
          else if (t == "boolean") repl = ch.flip() ? J("true") : J(1.0);
          else if (t == "object") repl = J::arr();
          (*resolve(doc, v.path))[v.key] = repl;
          what = "property '" + v.key + "' of " + path_str(v.path) + " (schema type " + t + ") given the wrong JSON type";
        }
    }
  else if (kind == 3)
    {
      std::vector<const ValueSite *> cand;
      for (auto &v : vals) if (v.schema->has("enum")) cand.push_back(&v);
      if (!cand.empty())
        {
          const ValueSite &v = *cand[ch.index(cand.size())];
          (*resolve(doc, v.path))[v.key] = ch.pick<std::string>({"no such option", "", "Replace", "uniform "});
          what = "property '" + v.key + "' of " + path_str(v.path) + " given a value outside its enum";
        }
    }
  else
    {
      doc["version"] = ch.pick<std::string>({"1.0", "1.2", "0.5", "", "2.0", "1.1 "});
      what = "wrong version";
    }
  c["mutated"] = doc.dump();
  c["what"] = what;
  c["kind"] = kind;
  return c;
}

static Result check_must_throw(const J &c)
{
  Result r;
  if (c.at("what").str().empty()) { r.discard = true; return r; }
  const std::string base = try_build(c.at("valid").str());
  if (!base.empty()) { r.discard = true; r.classes.push_back("valid world rejected"); r.msg = base; return r; }
  r.nontrivial = true;
  r.inner = r.inner_nt = 1;
  r.classes.push_back("kind=" + std::to_string(static_cast<int>(c.at("kind").num())));
  const std::string res = try_build(c.at("mutated").str());
  if (res.empty())
    return Result::fail("accepted:" + c.at("sig").str(), "a world file with " + c.at("what").str() + " was accepted without an exception");
  if (res.find("<empty message>") != std::string::npos) return Result::fail("empty-exception-message", "rejected, but the exception carries no message");
  return r;
}

static Result check_schema_violation(const J &c)
{
  J cc = c;
  static const char *names[] = {"unknown-key", "missing-required", "wrong-type", "bad-enum", "wrong-version"};
  cc["sig"] = names[static_cast<int>(c.at("kind").num())];
  return check_must_throw(cc);
}

// ---------------------------------------------------------------- (iii) inconsistent list lengths
static J base_world(const g::Frame &fr) { J r = J::obj(); g::frame_to_json(fr, r); return r; }

static J gen_list_lengths(Chooser &ch)
{
  g::Opt o;
  g::Frame fr = g::gen_frame(ch, o);
  J root = base_world(fr);
  g::Opt none;
  none.grains = false; none.velocity = false;
  g::FM m;
  const std::array<double, 2> ctr = g::gen_centre(ch, fr);
  const int which = static_cast<int>(ch.range(0, 12));
  J feat;
  std::string what, sig;
  auto drop_or_add = [&](J &arr) { if (arr.size() > 1 && ch.flip()) arr.a.pop_back(); else arr.a.push_back(arr.a.empty() ? J(1.0) : arr.a.back()); };
  if (which == 0)
    {
      feat = g::area_feature(ch, fr, none, ch.pick<std::string>({"continental plate", "oceanic plate", "mantle layer"}), ctr, 0, m);
      J cm = J::obj(); cm["model"] = "uniform"; cm["compositions"] = J::arr({J(0), J(1)}); cm["fractions"] = J::arr({J(0.5), J(0.5)});
      drop_or_add(cm["fractions"]);
      feat["composition models"] = J::arr({cm});
      what = "uniform composition: compositions and fractions differ in length"; sig = "uniform-fractions";
    }
  else if (which == 1 || which == 2)
    {
      feat = g::plume_feature(ch, fr, none, ctr, 0, m);
      const std::string key = ch.pick<std::string>({"cross section depths", "semi-major axis", "eccentricity", "rotation angles"});
      drop_or_add(feat[key]);
      if (key == "cross section depths" && feat[key].size() > 1)
        {
          // keep the list ascending
          for (size_t i = 1; i < feat[key].size(); ++i) if (!(feat[key][i].num() > feat[key][i - 1].num())) feat[key][i] = J(feat[key][i - 1].num() + 10e3);
        }
      what = "plume: '" + key + "' has a different number of entries than 'coordinates'"; sig = "plume-" + key;
    }
  else if (which == 3)
    {
      feat = g::plume_feature(ch, fr, none, ctr, 0, m);
      J tm = J::obj(); tm["model"] = "gaussian";
      tm["depths"] = J::arr({J(m.dmin), J(m.dmin + 100e3)}); tm["centerline temperatures"] = J::arr({J(1800.0), J(1900.0)}); tm["gaussian sigmas"] = J::arr({J(0.3), J(0.4)});
      const std::string key = ch.pick<std::string>({"depths", "centerline temperatures", "gaussian sigmas"});
      drop_or_add(tm[key]);
      if (key == "depths") for (size_t i = 1; i < tm[key].size(); ++i) tm[key][i] = J(tm[key][i - 1].num() + 100e3);
      feat["temperature models"] = J::arr({tm});
      what = "gaussian plume temperature: '" + key + "' has a different length than the other two lists"; sig = "gaussian-" + key;
    }
  else if (which == 4)
    {
      feat = g::line_feature(ch, fr, none, ch.flip() ? "subducting plate" : "fault", ctr, 0, m);
      J cm = J::obj(); cm["model"] = "smooth"; cm["compositions"] = J::arr({J(0), J(1)});
      const bool fault = feat.at("model").str() == "fault";
      cm[fault ? "center fractions" : "top fractions"] = J::arr({J(1.0), J(0.5)});
      cm[fault ? "side fractions" : "bottom fractions"] = J::arr({J(0.0), J(0.25)});
      if (!fault) cm["max distance slab top"] = 100e3; else cm["side distance fault center"] = 100e3;
      const std::string key = ch.flip() ? (fault ? "center fractions" : "top fractions") : (fault ? "side fractions" : "bottom fractions");
      drop_or_add(cm[key]);
      feat["composition models"] = J::arr({cm});
      what = "smooth composition: '" + key + "' and compositions differ in length"; sig = "smooth-fractions";
    }
  else if (which == 5)
    {
      feat = g::area_feature(ch, fr, none, "continental plate", ctr, 0, m);
      J cm = J::obj(); cm["model"] = "random"; cm["compositions"] = J::arr({J(0), J(1)}); cm["min value"] = J::arr({J(0.0), J(0.0)}); cm["max value"] = J::arr({J(1.0), J(1.0)});
      drop_or_add(cm[ch.flip() ? "min value" : "max value"]);
      feat["composition models"] = J::arr({cm});
      what = "random composition: min/max value and compositions differ in length"; sig = "random-minmax";
    }
  else if (which == 6)
    {
      const std::string type = ch.pick<std::string>({"continental plate", "oceanic plate", "mantle layer", "plume", "subducting plate", "fault"});
      if (type == "plume") feat = g::plume_feature(ch, fr, none, ctr, 0, m);
      else if (type == "subducting plate" || type == "fault") feat = g::line_feature(ch, fr, none, type, ctr, 0, m);
      else feat = g::area_feature(ch, fr, none, type, ctr, 0, m);
      J gm = J::obj(); gm["model"] = "uniform"; gm["compositions"] = J::arr({J(0), J(1)});
      gm["Euler angles z-x-z"] = J::arr({jp(0, 0, 0), jp(10, 20, 30)}); gm["grain sizes"] = J::arr({J(-1.0), J(0.5)});
      drop_or_add(gm[ch.flip() ? "Euler angles z-x-z" : "grain sizes"]);
      feat["grains models"] = J::arr({gm});
      what = type + " uniform grains: per-composition lists differ in length"; sig = "uniform-grains-lists";
    }
  else if (which == 7)
    {
      const std::string type = ch.pick<std::string>({"continental plate", "oceanic plate", "mantle layer", "plume", "subducting plate", "fault"});
      if (type == "plume") feat = g::plume_feature(ch, fr, none, ctr, 0, m);
      else if (type == "subducting plate" || type == "fault") feat = g::line_feature(ch, fr, none, type, ctr, 0, m);
      else feat = g::area_feature(ch, fr, none, type, ctr, 0, m);
      J gm = J::obj(); gm["model"] = "random uniform distribution deflected"; gm["compositions"] = J::arr({J(0), J(1)});
      gm["basis Euler angles z-x-z"] = J::arr({jp(0, 0, 0), jp(10, 20, 30)}); gm["grain sizes"] = J::arr({J(-1.0), J(0.5)});
      gm["normalize grain sizes"] = J::arr({J(true), J(false)}); gm["deflections"] = J::arr({J(0.5), J(1.0)});
      drop_or_add(gm[ch.pick<std::string>({"basis Euler angles z-x-z", "grain sizes", "normalize grain sizes", "deflections"})]);
      feat["grains models"] = J::arr({gm});
      what = type + " random deflected grains: per-composition lists differ in length"; sig = "random-grains-lists";
    }
  else if (which == 11 || which == 12)
    {
      // a point of a depth given as values at points: one or three coordinates instead of two (feature level or model level)
      feat = g::area_feature(ch, fr, none, ch.pick<std::string>({"continental plate", "oceanic plate", "mantle layer"}), ctr, 0, m);
      const std::string key = ch.flip() ? "max depth" : "min depth";
      const double v = key == "max depth" ? m.dmax : m.dmin;
      J pt = which == 11 ? J::arr({J(m.kernel[0])}) : J::arr({J(m.kernel[0]), J(m.kernel[1]), J(m.kernel[1])});
      J surf = J::arr({J::arr({J(v)}), J::arr({J(0.5 * (m.dmin + m.dmax)), J::arr({pt})})});
      if (ch.flip()) feat[key] = surf;
      else { J tm = J::obj(); tm["model"] = "uniform"; tm["temperature"] = 600.0; tm[key] = surf; feat["temperature models"] = J::arr({tm}); }
      what = "'" + key + "' given as values at points: a point with " + (which == 11 ? "one coordinate" : "three coordinates"); sig = "value-point-coordinates";
    }
  else if (which == 10)
    {
      // a section entry for a coordinate the feature does not have
      const std::string type = ch.flip() ? "subducting plate" : "fault";
      feat = g::line_feature(ch, fr, none, type, ctr, 0, m);
      const int n = static_cast<int>(feat.at("coordinates").size());
      J sec = J::obj();
      sec["coordinate"] = n + static_cast<int>(ch.pick<int>({0, 0, 1, 5}));
      sec["segments"] = feat.at("segments");
      J secs = feat.has("sections") ? feat.at("sections") : J::arr();
      secs.push(sec);
      feat["sections"] = secs;
      what = type + ": a section entry names coordinate " + std::to_string(static_cast<int>(sec["coordinate"].num())) + " but there are only " + std::to_string(n) + " coordinates"; sig = "section-for-missing-coordinate";
    }
  else
    {
      // ridge coordinates vs spreading velocities given per ridge point
      const bool slab = which == 9;
      if (slab) feat = g::line_feature(ch, fr, none, "subducting plate", ctr, 0, m);
      else feat = g::area_feature(ch, fr, none, "oceanic plate", ctr, 0, m);
      J tm = J::obj();
      const double d = fr.sph ? 10.0 : 800e3;
      J ridge = J::arr({jp(m.kernel[0] - d, m.kernel[1] - d), jp(m.kernel[0] - d, m.kernel[1]), jp(m.kernel[0] - d, m.kernel[1] + d)});
      tm["ridge coordinates"] = J::arr({ridge});
      // velocities given at the ridge points: [[time, [[v0, v1, v2]]]]; one list per ridge, one value per ridge point
      J vel = J::arr({J(0.05), J(0.06), J(0.07)});
      drop_or_add(vel);
      if (vel.size() > 3) vel.a.resize(2); // shorter than the ridge is the interesting direction
      tm["spreading velocity"] = J::arr({J::arr({J(0.0), J::arr({vel})})});
      if (slab)
        {
          tm["model"] = "mass conserving"; tm["subducting velocity"] = 0.05; tm["coupling depth"] = 80e3;
          tm["min distance slab top"] = -100e3; tm["max distance slab top"] = 150e3;
          tm["reference model name"] = ch.pick<std::string>({"half space model", "plate model"});
        }
      else { tm["model"] = ch.pick<std::string>({"half space model", "plate model"}); tm["max depth"] = m.dmax; }
      feat["temperature models"] = J::arr({tm});
      what = std::string(slab ? "mass conserving" : "oceanic cooling") + " model: fewer spreading velocities than ridge points"; sig = "spreading-velocity-list";
    }
  root["features"] = J::arr({feat});
  J c = J::obj();
  c["mutated"] = root.dump();
  c["what"] = what; c["sig"] = sig; c["kind"] = which;
  // the same file with the lists consistent must be accepted: built by undoing nothing here, checked in `valid` below
  c["valid"] = "{\"version\":\"1.1\",\"features\":[]}";
  return c;
}

// ---------------------------------------------------------------- (iv) options that are documented as unavailable / outside the option list
static J gen_unsupported(Chooser &ch)
{
  g::Opt o;
  J c = J::obj();
  const int which = static_cast<int>(ch.range(0, 4));
  std::string what, sig;
  J root;
  if (which == 4)
    {
      // the world-level interpolation option with a value outside its option list (features keep their default "global")
      g::Frame fr = g::gen_frame(ch, o);
      root = base_world(fr);
      g::Opt none; none.grains = false; none.velocity = false;
      g::FM m;
      const std::string type = ch.pick<std::string>({"continental plate", "oceanic plate", "mantle layer", "subducting plate", "fault"});
      root["features"] = J::arr({type == "subducting plate" || type == "fault" ? g::line_feature(ch, fr, none, type, g::gen_centre(ch, fr), 0, m) : g::area_feature(ch, fr, none, type, g::gen_centre(ch, fr), 0, m)});
      root["interpolation"] = ch.pick<std::string>({"bogus", "cubic spline", "", "Continuous Monotone Spline ", "splines"});
      what = "world-level \"interpolation\": \"" + root["interpolation"].str() + "\", which is none of the documented options"; sig = "unknown-interpolation";
    }
  else if (which == 0)
    {
      g::Frame fr; fr.sph = true; fr.R = 6371e3; fr.depth_method = "continuous";
      root = base_world(fr);
      g::Opt none; g::FM m;
      root["features"] = J::arr({g::line_feature(ch, fr, none, "subducting plate", g::gen_centre(ch, fr), 0, m)});
      what = "depth method 'continuous', which the documentation calls not available"; sig = "depth-method-continuous";
    }
  else
    {
      g::Frame fr = g::gen_frame(ch, o);
      root = base_world(fr);
      g::Opt none; none.grains = false; none.velocity = false;
      g::FM m;
      const std::array<double, 2> ctr = g::gen_centre(ch, fr);
      if (which == 1 || which == 2)
        {
          const bool slab = which == 2;
          J feat = slab ? g::line_feature(ch, fr, none, "subducting plate", ctr, 0, m) : g::area_feature(ch, fr, none, "oceanic plate", ctr, 0, m);
          J cm = J::obj(); cm["model"] = "tian water content"; cm["compositions"] = J::arr({J(0)});
          cm["lithology"] = ch.pick<std::string>({"granite", "", "Peridotite", "morb"});
          feat["composition models"] = J::arr({cm});
          root["features"] = J::arr({feat});
          what = "tian water content with lithology '" + cm["lithology"].str() + "' (documented: sediment, MORB, gabbro, peridotite)"; sig = "unknown-lithology";
        }
      else
        {
          J feat = g::line_feature(ch, fr, none, "subducting plate", ctr, 0, m);
          J tm = J::obj(); tm["model"] = "mass conserving"; tm["spreading velocity"] = 0.05; tm["subducting velocity"] = 0.05;
          const double d = fr.sph ? 10.0 : 800e3;
          tm["ridge coordinates"] = J::arr({J::arr({jp(m.kernel[0] - d, m.kernel[1] - d), jp(m.kernel[0] - d, m.kernel[1] + d)})});
          tm["reference model name"] = ch.pick<std::string>({"plate", "half space", "", "Plate model"});
          feat["temperature models"] = J::arr({tm});
          root["features"] = J::arr({feat});
          what = "mass conserving with reference model name '" + tm["reference model name"].str() + "' (documented: half space model, plate model)"; sig = "unknown-reference-model";
        }
    }
  c["mutated"] = root.dump(); c["what"] = what; c["sig"] = sig; c["kind"] = which;
  c["valid"] = "{\"version\":\"1.1\",\"features\":[]}";
  return c;
}

// ---------------------------------------------------------------- (v) formatting / comments / key order
static J gen_formatting(Chooser &ch)
{
  g::Opt o;
  o.min_features = 1; o.max_features = 4; o.operations = true; o.model_ranges = true; o.global_constants = true; o.cross_section = 1;
  g::GW w = g::gen_world(ch, o);
  J c = J::obj();
  c["world"] = w.root.dump();
  c["indent"] = static_cast<int>(ch.range(0, 4));
  c["exp"] = ch.flip(); c["comments"] = ch.flip(); c["trailing_zero"] = ch.flip();
  c["perm"] = static_cast<int>(ch.range(0, 1000));
  c["queries"] = g::gen_queries(ch, w, 12, 85);
  return c;
}
static Result check_formatting(const J &c)
{
  Result r;
  const J root = J::parse(c.at("world").str());
  J::Style st;
  st.indent = static_cast<int>(c.at("indent").num()); st.exp_numbers = c.at("exp").boolean(); st.comments = c.at("comments").boolean() && st.indent > 0;
  st.trailing_zero = c.at("trailing_zero").boolean();
  if (c.at("perm").num() > 0) st.key_perm_seed = {static_cast<unsigned>(c.at("perm").num())};
  const std::string variant = root.dump(st);
  auto A = make_world(c.at("world").str(), 1, "fa");
  std::unique_ptr<WB::World> B;
  const std::string res = try_build(variant, &B);
  if (!res.empty()) return Result::fail("formatting-variant-rejected", "a re-formatted copy of an accepted file was rejected: " + res + "\n--- variant ---\n" + variant.substr(0, 1500));
  r.nontrivial = true;
  if (st.comments) r.classes.push_back("comments");
  if (!st.key_perm_seed.empty()) r.classes.push_back("keys permuted");
  if (st.exp_numbers) r.classes.push_back("exponent numbers");
  const PropList all = {{{1, 0, 0}}, {{2, 0, 0}}, {{2, 1, 0}}, {{2, 2, 0}}, {{3, 0, 2}}, {{5, 0, 0}}};
  for (const auto &q : c.at("queries").a)
    {
      const std::vector<double> a = A->properties(p3(q.at("p")), q.at("depth").num(), all), b = B->properties(p3(q.at("p")), q.at("depth").num(), all);
      const double ta = A->properties(p3(q.at("p")), q.at("depth").num(), {{{4, 0, 0}}})[0], tb = B->properties(p3(q.at("p")), q.at("depth").num(), {{{4, 0, 0}}})[0];
      r.inner++; r.inner_nt++;
      const std::string sa = ta < 0 ? "" : A->feature_tags[static_cast<size_t>(ta)], sb = tb < 0 ? "" : B->feature_tags[static_cast<size_t>(tb)];
      if (sa != sb) return Result::fail("formatting-changes-answer", "tag differs between two formattings of one file");
      for (size_t i = 0; i < a.size(); ++i)
        if (!same_bits(a[i], b[i]) && !(std::isnan(a[i]) && std::isnan(b[i])))
          return Result::fail("formatting-changes-answer", "value " + std::to_string(i) + " differs between two formattings of one file: " + fmt(a[i]) + " vs " + fmt(b[i]));
    }
  return r;
}

// ---------------------------------------------------------------- schema-valid documents with extreme numbers: reject or build, never crash
static J gen_extreme(Chooser &ch)
{
  g::Opt o;
  o.min_features = 1; o.max_features = 3; o.operations = true; o.model_ranges = true; o.global_constants = true; o.cross_section = 1; o.water = true; o.random_models = ch.chance(30);
  o.depth_surfaces = true; o.depth_surface_interior = 6; // the coordinates and values of depth value points are numbers too
  g::GW w = g::gen_world(ch, o);
  J doc = w.root;
  std::vector<ObjectSite> objs;
  std::vector<ValueSite> vals;
  Path p;
  collect_sites(doc, g_schema, p, objs, vals);
  // replace 1..3 numeric leaves
  std::vector<J *> nums;
  std::function<void(J &)> walk = [&](J &j) {
    if (j.is_num()) nums.push_back(&j);
    else if (j.is_arr()) for (auto &e : j.a) walk(e);
    else if (j.is_obj()) for (auto &kv : j.o) if (kv.first != "version") walk(kv.second);
  };
  walk(doc);
  const int n = static_cast<int>(ch.range(1, 3));
  for (int i = 0; i < n && !nums.empty(); ++i)
    {
      J *t = nums[ch.index(nums.size())];
      const int k = static_cast<int>(ch.range(0, 9));
      if (k == 0) *t = J(0.0);
      else if (k == 1) *t = J(-1.0);
      else if (k == 2) *t = J(1e-300);
      else if (k == 3) *t = J(1e308);
      else if (k == 4) *t = J(-1e308);
      else if (k == 5) *t = J::raw("NaN");
      else if (k == 6) *t = J::raw("Infinity");
      else if (k == 7) *t = J::raw("-Infinity");
      else if (k == 8) *t = J(-t->n);
      else *t = J(t->n * 1e6);
    }
  // and sometimes an empty list where a list is expected
  if (ch.chance(25))
    {
      std::vector<J *> arrs;
      std::function<void(J &)> walk2 = [&](J &j) {
        if (j.is_arr()) { arrs.push_back(&j); for (auto &e : j.a) walk2(e); }
        else if (j.is_obj()) for (auto &kv : j.o) walk2(kv.second);
      };
      walk2(doc);
      if (!arrs.empty()) { J *a = arrs[ch.index(arrs.size())]; if (ch.flip()) a->a.clear(); else if (!a->a.empty()) a->a.resize(1); }
    }
  // ... or all lists of one model / feature emptied together: parallel lists stay equally long, so a check that only compares
  // their lengths lets them through
  if (ch.chance(20))
    {
      std::vector<J *> objs2;
      std::function<void(J &)> walk3 = [&](J &j) {
        if (j.is_obj())
          {
            int na = 0;
            for (auto &kv : j.o) { if (kv.second.is_arr() && kv.first != "features" && kv.first != "coordinates") na++; }
            if (na >= 2) objs2.push_back(&j);
            for (auto &kv : j.o) walk3(kv.second);
          }
        else if (j.is_arr()) for (auto &e : j.a) walk3(e);
      };
      walk3(doc);
      if (!objs2.empty())
        {
          J *ob = objs2[ch.index(objs2.size())];
          for (auto &kv : ob->o) if (kv.second.is_arr() && kv.first != "features" && kv.first != "coordinates" && !kv.second.a.empty() && !kv.second.a[0].is_obj()) kv.second.a.clear();
        }
    }
  J c = J::obj();
  c["world"] = doc.dump();
  c["queries"] = g::gen_queries(ch, w, 6, 85);
  return c;
}
static Result check_extreme(const J &c)
{
  Result r;
  std::unique_ptr<WB::World> W;
  const std::string res = try_build(c.at("world").str(), &W);
  r.inner = 1;
  if (!res.empty())
    {
      r.classes.push_back("rejected");
      if (res.find("<empty message>") != std::string::npos) return Result::fail("empty-exception-message", "rejected, but the exception carries no message");
      return r;
    }
  r.nontrivial = true; r.inner_nt = 1;
  r.classes.push_back("constructed");
  const PropList all = {{{1, 0, 0}}, {{2, 0, 0}}, {{3, 0, 2}}, {{4, 0, 0}}, {{5, 0, 0}}};
  for (const auto &q : c.at("queries").a)
    {
      try { W->properties(p3(q.at("p")), q.at("depth").num(), all); }
      catch (const std::exception &e) { if (std::string(e.what()).empty()) return Result::fail("empty-exception-message", "query threw without message"); }
    }
  return r;
}

// ---------------------------------------------------------------- (vii) size extremes of the text itself
// Byte sequences that are tiny in information but extreme in shape: very deep nesting (alone, or as the value of a key inside an
// otherwise valid world), very long strings / keys / numbers, very long flat arrays. The world is built from a description of the
// shape (so that the replay file stays small); construction has to throw or succeed - in its own process: a stack overflow is a crash.
static std::string shape_text(const J &c)
{
  const std::string kind = c.at("shape").str();
  const size_t n = static_cast<size_t>(c.at("n").num());
  auto rep = [](const std::string &u, size_t k) { std::string t; t.reserve(u.size() * k); for (size_t i = 0; i < k; ++i) t += u; return t; };
  const std::string head = "{\"version\":\"1.1\",\"features\":[{\"model\":\"continental plate\",\"name\":\"a\",\"coordinates\":[[0,0],[1e5,0],[1e5,1e5]],\"max depth\":1e5,\"temperature models\":[{\"model\":\"uniform\",\"temperature\":";
  const std::string tail = "}]}]}";
  if (kind == "open-brackets") return rep("[", n);
  if (kind == "open-braces") return rep("{\"a\":", n);
  if (kind == "balanced-brackets") return rep("[", n) + rep("]", n);
  if (kind == "balanced-objects") return rep("{\"a\":", n) + "1" + rep("}", n);
  if (kind == "nested-in-world") return head + rep("[", n) + "1" + rep("]", n) + tail;                  // wrong type, deeply
  if (kind == "nested-coordinates") return "{\"version\":\"1.1\",\"features\":[{\"model\":\"continental plate\",\"name\":\"a\",\"coordinates\":" + rep("[", n) + "0" + rep("]", n) + "}]}";
  if (kind == "long-string") return "{\"version\":\"" + rep("1", n) + "\",\"features\":[]}";
  if (kind == "long-key") return "{\"version\":\"1.1\",\"" + rep("k", n) + "\":1,\"features\":[]}";
  if (kind == "long-number") return head + rep("9", n) + tail;
  if (kind == "long-fraction") return head + "600." + rep("3", n) + tail;
  if (kind == "long-array") { std::string t = "{\"version\":\"1.1\",\"features\":[{\"model\":\"continental plate\",\"name\":\"a\",\"coordinates\":["; for (size_t i = 0; i < n; ++i) t += (i ? "," : "") + std::string("[") + std::to_string(i % 977) + "," + std::to_string((i * 7) % 991) + "]"; return t + "],\"max depth\":1e5}]}"; }
  if (kind == "quote-in-line-comment") return "{ // a \" in a comment\n\"features\":" + rep("[", n);
  if (kind == "quote-in-block-comment") return "{ /* a \" */ \"features\":" + rep("[", n);
  if (kind == "string-ending-in-backslash") return "{\"$schema\":\"C:\\\\wb\\\\\",\"features\":" + rep("[", n);
  if (kind == "escaped-quote-in-string") return "{\"$schema\":\"a \\\" b\",\"features\":" + rep("[", n);
  if (kind == "comment-flood") return rep("/* [[[[ */", n) + "{\"version\":\"1.1\",\"features\":[]}";
  return "{}";
}
static J gen_shape(Chooser &ch)
{
  J c = J::obj();
  c["shape"] = ch.pick<std::string>({"open-brackets", "open-braces", "balanced-brackets", "balanced-objects", "nested-in-world", "nested-coordinates", "long-string", "long-key", "long-number", "long-fraction", "long-array", "comment-flood", "quote-in-line-comment", "quote-in-block-comment", "string-ending-in-backslash", "escaped-quote-in-string"});
  c["n"] = static_cast<double>(ch.pick<int>({3, 50, 900, 1100, 20000, 300000, 2000000}));
  return c;
}
static Result check_shape(const J &c)
{
  Result r;
  r.nontrivial = c.at("n").num() >= 900; r.inner = 1; r.inner_nt = r.nontrivial ? 1 : 0;
  r.classes.push_back(c.at("shape").str() + (c.at("n").num() >= 20000 ? " (large)" : ""));
  std::unique_ptr<WB::World> W;
  const std::string res = try_build(shape_text(c), &W);
  if (!res.empty())
    {
      r.classes.push_back("rejected");
      if (res.find("<empty message>") != std::string::npos) return Result::fail("empty-exception-message", "rejected, but the exception carries no message");
      return r;
    }
  r.classes.push_back("constructed");
  try { W->properties(std::array<double, 3>{{5e4, 2e4, 9e5}}, 1e4, {{{1, 0, 0}}, {{4, 0, 0}}}); } catch (const std::exception &) {}
  return r;
}

int main(int argc, char **argv)
{
  scratch_dir();
  load_schema();
  return run_main("C12", argc, argv,
  {
    {"schema_violation", "valid generated world + one injected violation of the schema emitted by the tree under test (unknown key where additionalProperties=false, removed required key, wrong JSON type, value outside an enum, wrong version) at a random site of the document; must throw std::exception with a message. Non-trivial: an injection site existed", 150, gen_schema_violation, check_schema_violation, 100, true, true},
    {"list_lengths", "single-feature worlds in which exactly one of the documented parallel lists has a different length (fractions, plume section tables, gaussian tables, smooth fractions, random min/max, grains lists, spreading velocities per ridge point, section entries for missing coordinates, depth value points with one or three coordinates); must throw", 120, gen_list_lengths, check_must_throw, 100, true, true},
    {"unsupported_option", "depth method 'continuous'; tian water content with an undocumented lithology; mass conserving with an undocumented reference model name; a world-level interpolation value outside the option list; must throw", 60, gen_unsupported, check_must_throw, 100, true, true},
    {"formatting", "one valid world emitted in two styles (indentation, // and /* */ comments, permuted keys, exponent / trailing-zero numbers): both accepted, answers bit-identical at 12 points", 80, gen_formatting, check_formatting, 100, true, true},
    {"extreme_numbers", "schema-valid worlds with 1..3 numbers replaced by 0, -1, 1e-300, +-1e308, NaN/Infinity literals, sign flips, x1e6 and occasionally emptied/shortened lists (one list, or all parallel lists of one model together): construction throws or succeeds, queries return or throw; each case in its own process, a crash is a failure", 200, gen_extreme, check_extreme, 100, true, true},
    {"text_shapes", "texts that are extreme in shape rather than content: 3 .. 2 000 000 nested brackets / objects (unbalanced, balanced, as a value inside a valid world, as the coordinates), strings, keys and numbers of that many characters, arrays of that many points, that many comments, deep nesting behind a quote inside a comment or behind a string that ends in a backslash; construction throws or succeeds (each case in its own process, a stack overflow is a crash). Non-trivial: n >= 900", 40, gen_shape, check_shape, 100, true, true},
  });
}
