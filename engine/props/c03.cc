// C03 — outside every feature the background state is returned; forced surface temperature.
#include "../gen.h"

using namespace vf;
namespace WB = WorldBuilder;

struct Consts { double Tp = 1600, alpha = 3.5e-5, cp = 1250, g = 9.81, Ts = 293.15; bool force = false; };
static Consts consts_of(const J &root)
{
  Consts c;
  if (root.has("potential mantle temperature")) c.Tp = root.at("potential mantle temperature").num();
  if (root.has("thermal expansion coefficient")) c.alpha = root.at("thermal expansion coefficient").num();
  if (root.has("specific heat")) c.cp = root.at("specific heat").num();
  if (root.has("gravity model") && root.at("gravity model").has("magnitude")) c.g = root.at("gravity model").at("magnitude").num();
  if (root.has("surface temperature")) c.Ts = root.at("surface temperature").num();
  if (root.has("force surface temperature")) c.force = root.at("force surface temperature").boolean();
  return c;
}

// ---------------------------------------------------------------- background
static J gen_background(Chooser &ch)
{
  g::Opt o;
  o.min_features = 0; o.max_features = 4;
  o.global_constants = true; o.force_surface = true; o.operations = true; o.model_ranges = true;
  o.cooling_models = false; o.any_gravity_sign = true;
  g::GW w = g::gen_world(ch, o);
  J c = J::obj();
  c["world"] = w.root.dump();
  J qs = J::arr();
  const int n = static_cast<int>(ch.range(1, 8));
  for (int i = 0; i < n; ++i)
    {
      J q;
      const int kind = static_cast<int>(ch.range(0, 3));
      std::array<double, 2> c0 = w.feats.empty() ? std::array<double, 2>{{0, 0}} : w.feats[0].kernel;
      double depth = ch.pick<double>({0.0, 1e-3, 35e3, 410e3, -5e3, 2000e3});
      if (ch.chance(50)) depth = ch.real(-20e3, w.fr.sph ? 0.6 * w.fr.R : 0.95 * w.fr.H);
      if (kind <= 1)
        {
          // far from everything by construction: > 5000 km (cartesian) / > 75 degrees of longitude away
          const double ang = ch.real(-PI, PI);
          if (w.fr.sph)
            {
              double lon = c0[0] + (ch.flip() ? 1 : -1) * ch.real(80, 170);
              if (lon > 360) lon -= 360;
              if (lon < -360) lon += 360;
              q = g::make_query(w.fr, lon, std::max(-89.0, std::min(89.0, c0[1] + ch.real(-20, 20))), depth);
            }
          else q = g::make_query(w.fr, c0[0] + std::cos(ang) * ch.real(6000e3, 9000e3), c0[1] + std::sin(ang) * ch.real(6000e3, 9000e3), depth);
          // ... from *every* feature (15% of the features are not placed at the common hub): footprints and slabs stay within
          // 2500 km / 25 degrees of their kernel
          bool is_far = true;
          for (const auto &fm : w.feats)
            {
              if (w.fr.sph)
                {
                  double dl = std::fmod(std::fabs(q.at("nat")[0].num() - fm.kernel[0]), 360.0);
                  if (dl > 180) dl = 360 - dl;
                  if (dl < 50) is_far = false;
                }
              else if (std::hypot(q.at("nat")[0].num() - fm.kernel[0], q.at("nat")[1].num() - fm.kernel[1]) < 4500e3) is_far = false;
            }
          q["far"] = is_far;
        }
      else
        {
          // anywhere, incl. inside footprints but above/below the feature: background is asserted when the code reports tag -1
          q = g::gen_query(ch, w, w.feats.empty() ? nullptr : &w.feats[ch.index(w.feats.size())]);
          if (ch.chance(60)) { q = g::make_query(w.fr, q.at("nat")[0].num(), q.at("nat")[1].num(), ch.flip() ? depth : ch.pick<double>({0.0, -1e3, 1.0})); }
          if (w.fr.sph && ch.chance(15))
            {
              // the planet's centre: depth equal to the radius
              q = J::obj();
              q["p"] = jp(0, 0, 0); q["depth"] = w.fr.R; q["nat"] = jp(0, 0);
            }
          q["far"] = false;
        }
      qs.push(q);
    }
  c["queries"] = qs;
  c["props"] = g::gen_props(ch, 8);
  // 40%: another world with other constants (and possibly the other coordinate system) is built and queried first in the same
  // process: the background of *this* world is a function of its own file only. Every case runs in its own process, so the replay
  // of a case contains exactly this history.
  if (ch.chance(40))
    {
      g::Opt o2;
      o2.min_features = 0; o2.max_features = 1; o2.global_constants = true; o2.force_surface = true; o2.any_gravity_sign = true; o2.cooling_models = false; o2.cross_section = ch.flip() ? 2 : 0;
      g::GW w2 = g::gen_world(ch, o2);
      J pre = J::obj();
      pre["world"] = w2.root.dump();
      pre["query"] = g::make_query(w2.fr, w2.fr.sph ? 10.0 : 1e5, w2.fr.sph ? 20.0 : 2e5, ch.pick<double>({0.0, 50e3, 300e3}));
      pre["has_section"] = w2.root.has("cross section");
      pre["p2"] = w2.fr.sph ? jp((w2.fr.R - 50e3) * std::cos(0.1), (w2.fr.R - 50e3) * std::sin(0.1)) : jp(1e5, w2.fr.H - 50e3);
      c["prelude"] = pre;
    }
  return c;
}

static Result check_background(const J &c)
{
  Result r;
  const J root = J::parse(c.at("world").str());
  const Consts k = consts_of(root);
  std::unique_ptr<WB::World> prelude_world;
  if (c.has("prelude"))
    {
      const J &pre = c.at("prelude");
      prelude_world = make_world(pre.at("world").str(), 1, "prelude");
      const PropList all = {{{1, 0, 0}}, {{2, 0, 0}}, {{3, 0, 1}}, {{5, 0, 0}}, {{4, 0, 0}}};
      try { prelude_world->properties(p3(pre.at("query").at("p")), pre.at("query").at("depth").num(), all); } catch (const std::exception &) {}
      if (pre.at("has_section").boolean()) { try { prelude_world->properties(p2(pre.at("p2")), 50e3, all); } catch (const std::exception &) {} }
      r.classes.push_back("another world queried first");
    }
  auto w = make_world(c.at("world").str());
  PropList props = props_from(c.at("props"));
  // make sure the tag is asked for once (appended, so the generated layout is kept)
  PropList with_tag = props;
  with_tag.push_back({{4, 0, 0}});
  const bool nondefault = root.has("potential mantle temperature") || root.has("thermal expansion coefficient") || root.has("specific heat") || root.has("gravity model");
  for (const auto &q : c.at("queries").a)
    {
      const auto p = p3(q.at("p"));
      const double depth = q.at("depth").num();
      const bool far = q.at("far").boolean();
      const std::vector<double> out = w->properties(p, depth, with_tag);
      r.inner++;
      if (out.size() != w->properties_output_size(with_tag)) return Result::fail("output-size", "properties() returned " + std::to_string(out.size()) + " values, announced " + std::to_string(w->properties_output_size(with_tag)));
      const double tag = out.back();
      if (far && tag != -1) return Result::fail("background-tag", "point far from every feature has tag " + fmt(tag) + " (expected -1), query " + q.dump());
      if (tag != -1) { r.classes.push_back("inside-a-feature(skipped)"); continue; }
      const bool surface = std::fabs(depth) < 2.0 * std::numeric_limits<double>::epsilon();
      const double Tref = (k.force && surface) ? k.Ts : k.Tp * std::exp(k.alpha * k.g * depth / k.cp);
      if ((nondefault && depth != 0) || (k.force && surface && props.size() > 1)) { r.nontrivial = true; r.inner_nt++; }
      r.classes.push_back(far ? "far" : "near(tag=-1)");
      if (k.force && surface) r.classes.push_back("forced-surface-outside");
      size_t pos = 0;
      for (const auto &pr : with_tag)
        {
          const unsigned wdt = prop_width(pr);
          for (unsigned i = 0; i < wdt; ++i)
            {
              const double v = out[pos + i];
              double want = 0;
              if (pr[0] == 1) want = Tref;
              if (pr[0] == 4) want = -1;
              const bool ok = pr[0] == 1 ? close_rel(v, want, 1e-13) : (v == want);
              if (!ok)
                return Result::fail(pr[0] == 1 ? ((k.force && surface) ? "background-forced-surface" : "background-temperature") : (pr[0] == 2 ? "background-composition" : (pr[0] == 3 ? "background-grains" : (pr[0] == 4 ? "background-tag" : "background-velocity"))),
                                    "outside every feature (tag -1) property kind " + std::to_string(pr[0]) + " slot " + std::to_string(i) + " is " + fmt(v) + ", background is " + fmt(want) + "; query " + q.dump());
            }
          pos += wdt;
        }
    }
  return r;
}

// ---------------------------------------------------------------- forced surface temperature inside features
static J gen_forced(Chooser &ch)
{
  g::Opt o;
  o.min_features = 1; o.max_features = 4;
  o.global_constants = true; o.operations = true; o.cooling_models = false;
  g::GW w = g::gen_world(ch, o);
  w.root["force surface temperature"] = true;
  if (!w.root.has("surface temperature") && ch.flip()) w.root["surface temperature"] = ch.lattice(150, 500, 10);
  J c = J::obj();
  c["world"] = w.root.dump();
  J qs = J::arr();
  const int n = static_cast<int>(ch.range(1, 6));
  for (int i = 0; i < n; ++i)
    {
      J q = g::gen_query(ch, w, &w.feats[ch.index(w.feats.size())]);
      // surface: depth exactly 0 (also the tiny values the statement's |depth| < 2 eps admits)
      qs.push(g::make_query(w.fr, q.at("nat")[0].num(), q.at("nat")[1].num(), ch.pick<double>({0.0, 0.0, 1e-16, -1e-16})));
    }
  c["queries"] = qs;
  c["props"] = g::gen_props(ch, 6);
  return c;
}

static Result check_forced(const J &c)
{
  Result r;
  const J root = J::parse(c.at("world").str());
  const Consts k = consts_of(root);
  auto w = make_world(c.at("world").str());
  const PropList props = props_from(c.at("props"));
  bool has_T = false;
  for (auto &p : props) if (p[0] == 1) has_T = true;
  for (const auto &q : c.at("queries").a)
    {
      const auto p = p3(q.at("p"));
      const double depth = q.at("depth").num();
      const std::vector<double> out = w->properties(p, depth, props);
      const double tag = w->properties(p, depth, {{{4, 0, 0}}})[0];
      const double t_single = w->temperature(p, depth);
      r.inner++;
      if (tag != -1) r.classes.push_back("inside-feature");
      if (tag != -1 && props.size() > 1 && has_T) { r.nontrivial = true; r.inner_nt++; }
      if (t_single != k.Ts) return Result::fail("forced-surface-single", "single temperature query at depth 0 returns " + fmt(t_single) + ", configured surface temperature " + fmt(k.Ts));
      size_t pos = 0;
      for (const auto &pr : props)
        {
          if (pr[0] == 1 && out[pos] != k.Ts)
            return Result::fail("forced-surface-batched", "batched request " + c.at("props").dump() + " at depth " + fmt(depth) + " returns temperature " + fmt(out[pos]) + " in slot " + std::to_string(pos) + ", configured surface temperature " + fmt(k.Ts) + " (tag " + fmt(tag) + "); query " + q.dump());
          pos += prop_width(pr);
        }
    }
  return r;
}

int main(int argc, char **argv)
{
  return run_main("C03", argc, argv,
  {
    {"background", "worlds with 0..4 features, random Tp/alpha/cp/g/surface T, both coordinate systems; points far from everything by construction or anywhere with tag -1; depths incl. 0, negative, huge; any property list. Non-trivial: non-default constants and depth != 0, or forcing on at depth 0 in a batch. 40% of the cases build and query another world with other constants first; every case runs in its own process", 400, gen_background, check_background, 100, true, true},
    {"forced_surface", "worlds with force surface temperature, points aimed inside features at depth 0 / +-1e-16, any property list. Non-trivial: inside a feature, batch of >1 property containing temperature", 300, gen_forced, check_forced},
  });
}
