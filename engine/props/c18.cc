// C18 — gwb-grid writes the requested mesh and the library's values at its nodes.
#include "../gen.h"

#include <sys/wait.h>

using namespace vf;
namespace WB = WorldBuilder;

static int run_cmd(const std::string &cmd, std::string &out)
{
  out.clear();
  FILE *p = popen(cmd.c_str(), "r");
  if (!p) return -1;
  char buf[4096];
  while (size_t n = fread(buf, 1, sizeof buf, p)) out.append(buf, n);
  const int st = pclose(p);
  return WIFEXITED(st) ? WEXITSTATUS(st) : 128 + (WIFSIGNALED(st) ? WTERMSIG(st) : 0);
}

// ---------------------------------------------------------------- minimal reader of the ASCII VTU files the tool writes
struct Vtu
{
  bool ok = false;
  std::string error;
  long n_points = -1, n_cells = -1;
  std::map<std::string, std::vector<double>> arrays; // by Name; the unnamed Points array is "Points"
};
static std::string attr(const std::string &tag, const std::string &name)
{
  const size_t p = tag.find(name + "=\"");
  if (p == std::string::npos) return "";
  const size_t a = p + name.size() + 2, b = tag.find('"', a);
  return tag.substr(a, b - a);
}
static Vtu read_vtu(const std::string &path)
{
  Vtu v;
  std::ifstream f(path);
  if (!f) { v.error = "cannot open " + path; return v; }
  std::stringstream ss; ss << f.rdbuf();
  const std::string t = ss.str();
  if (t.find("<VTKFile") == std::string::npos || t.find("</VTKFile>") == std::string::npos) { v.error = "not a complete VTKFile document"; return v; }
  const size_t pc = t.find("<Piece");
  if (pc == std::string::npos) { v.error = "no Piece"; return v; }
  const std::string piece = t.substr(pc, t.find('>', pc) - pc);
  v.n_points = std::atol(attr(piece, "NumberOfPoints").c_str());
  v.n_cells = std::atol(attr(piece, "NumberOfCells").c_str());
  size_t pos = 0;
  const size_t points_at = t.find("<Points>");
  while ((pos = t.find("<DataArray", pos)) != std::string::npos)
    {
      const size_t e = t.find('>', pos);
      const std::string tag = t.substr(pos, e - pos);
      const size_t close = t.find("</DataArray>", e);
      if (close == std::string::npos) { v.error = "unterminated DataArray"; return v; }
      std::string name = attr(tag, "Name");
      if (name.empty() && points_at != std::string::npos && pos > points_at) name = "Points";
      if (attr(tag, "format") != "ascii") { v.error = "DataArray " + name + " is not ascii"; return v; }
      std::vector<double> vals;
      const char *p = t.c_str() + e + 1, *end = t.c_str() + close;
      while (p < end)
        {
          char *q = nullptr;
          const double d = std::strtod(p, &q);
          if (q == p) { ++p; continue; }
          vals.push_back(d);
          p = q;
        }
      v.arrays[name] = vals;
      pos = close;
    }
  v.ok = true;
  return v;
}

// ---------------------------------------------------------------- generator
static J gen_grid(Chooser &ch)
{
  J c = J::obj();
  const std::string type = ch.pick<std::string>({"cartesian", "cartesian", "chunk", "chunk", "annulus", "sphere"});
  c["grid_type"] = type;
  g::Opt o;
  o.min_features = 1; o.max_features = 4; o.operations = true; o.cross_section = 2; o.cooling_models = false;
  o.allow_spherical = type != "cartesian"; o.allow_cartesian = type == "cartesian";
  g::GW w = g::gen_world(ch, o);
  // the grid's outer radius is the world's radius so that grid depths and world depths agree
  c["world"] = w.root.dump();
  const int dim = type == "annulus" ? 2 : (type == "sphere" ? 3 : (ch.flip() ? 2 : 3));
  c["dim"] = dim;
  c["compositions"] = static_cast<int>(ch.range(0, 4));
  const std::array<double, 2> k = w.feats[0].kernel;
  if (type == "cartesian")
    {
      c["x_min"] = dim == 2 ? ch.lattice(-400e3, 0, 50e3) : k[0] - ch.lattice(200e3, 900e3, 50e3);
      c["x_max"] = dim == 2 ? ch.lattice(300e3, 1200e3, 50e3) : k[0] + ch.lattice(200e3, 900e3, 50e3);
      c["y_min"] = k[1] - ch.lattice(200e3, 900e3, 50e3); c["y_max"] = k[1] + ch.lattice(200e3, 900e3, 50e3);
      c["z_max"] = w.fr.H; c["z_min"] = w.fr.H - ch.lattice(100e3, 500e3, 50e3);
    }
  else
    {
      c["z_max"] = w.fr.R; c["z_min"] = w.fr.R - ch.lattice(200e3, 900e3, 50e3);
      if (type == "chunk")
        {
          c["x_min"] = dim == 2 ? ch.lattice(-10, 0, 1) : k[0] - ch.lattice(2, 12, 1); c["x_max"] = dim == 2 ? ch.lattice(5, 30, 1) : k[0] + ch.lattice(2, 12, 1);
          c["y_min"] = std::max(-89.0, k[1] - ch.lattice(2, 12, 1)); c["y_max"] = std::min(89.0, k[1] + ch.lattice(2, 12, 1));
        }
      else { c["x_min"] = 0.0; c["x_max"] = 360.0; c["y_min"] = -90.0; c["y_max"] = 90.0; }
    }
  c["nx"] = static_cast<int>(ch.range(1, type == "sphere" ? 4 : 12));
  c["ny"] = type == "sphere" ? static_cast<int>(c["nx"].num()) : static_cast<int>(ch.range(1, 8));
  c["nz"] = static_cast<int>(ch.range(1, type == "annulus" ? 3 : 10));
  c["j"] = ch.pick<int>({1, 2, 3, 7});
  c["flags"] = ch.pick<std::string>({"", "--filtered", "--by-tag", "--filtered --by-tag"});
  c["sph"] = w.fr.sph; c["R"] = w.fr.R; c["H"] = w.fr.H;
  return c;
}

struct Node { double x, y, z, depth; };

static Result check_grid(const J &c)
{
  Result r;
  const std::string exe = env("VERIF_GWB_GRID", "");
  if (exe.empty()) throw std::runtime_error("VERIF_GWB_GRID not set");
  const std::string dir = scratch_dir() + "/c18";
  { std::string cmd = "rm -rf '" + dir + "' && mkdir -p '" + dir + "'"; if (std::system(cmd.c_str())) {} }
  write_file(dir + "/w.wb", c.at("world").str());
  const std::string type = c.at("grid_type").str();
  const int dim = static_cast<int>(c.at("dim").num());
  const unsigned ncomp = static_cast<unsigned>(c.at("compositions").num());
  const size_t nx = static_cast<size_t>(c.at("nx").num()), ny = static_cast<size_t>(c.at("ny").num()), nz = static_cast<size_t>(c.at("nz").num());
  std::string grid = "grid_type = " + type + "\ndim = " + std::to_string(dim) + "\ncompositions = " + std::to_string(ncomp) + "\nvtu_output_format = ASCII\n";
  for (const char *k : {"x_min", "x_max", "y_min", "y_max", "z_min", "z_max"}) grid += std::string(k) + " = " + fmt(c.at(k).num()) + "\n";
  grid += "n_cell_x = " + std::to_string(nx) + "\nn_cell_y = " + std::to_string(ny) + "\nn_cell_z = " + std::to_string(nz) + "\n";
  write_file(dir + "/g.grid", grid);
  std::string out;
  const int rc = run_cmd("cd '" + dir + "' && '" + exe + "' -j " + std::to_string(static_cast<int>(c.at("j").num())) + " " + c.at("flags").str() + " w.wb g.grid 2>&1", out);
  auto W = make_world(c.at("world").str());
  r.classes.push_back(type + " dim=" + std::to_string(dim));
  if (rc != 0) return Result::fail("grid-run-failed", "gwb-grid ended with status " + std::to_string(rc) + " on a valid grid file: " + out.substr(0, 400));
  const Vtu v = read_vtu(dir + "/w.vtu");
  if (!v.ok) return Result::fail("vtu-malformed", "main output: " + v.error);
  // ---- (a) well-formed
  const size_t vpc = dim == 2 ? 4 : 8;
  for (const char *n : {"Depth", "Temperature", "velocity", "Tag", "Points", "connectivity", "offsets", "types"})
    if (!v.arrays.count(n)) return Result::fail("vtu-missing-array", std::string("array '") + n + "' missing");
  for (unsigned k = 0; k < ncomp; ++k) if (!v.arrays.count("Composition " + std::to_string(k))) return Result::fail("vtu-missing-array", "composition array " + std::to_string(k) + " missing");
  const size_t np = static_cast<size_t>(v.n_points), ncell = static_cast<size_t>(v.n_cells);
  if (v.arrays.at("Points").size() != 3 * np || v.arrays.at("Depth").size() != np || v.arrays.at("Temperature").size() != np || v.arrays.at("Tag").size() != np || v.arrays.at("velocity").size() != 3 * np)
    return Result::fail("vtu-array-size", "point arrays do not match NumberOfPoints=" + std::to_string(np));
  if (v.arrays.at("connectivity").size() != vpc * ncell || v.arrays.at("offsets").size() != ncell || v.arrays.at("types").size() != ncell)
    return Result::fail("vtu-array-size", "cell arrays do not match NumberOfCells=" + std::to_string(ncell));
  for (size_t i = 0; i < ncell; ++i)
    {
      if (v.arrays.at("offsets")[i] != static_cast<double>((i + 1) * vpc)) return Result::fail("vtu-offsets", "offset " + std::to_string(i) + " is " + fmt(v.arrays.at("offsets")[i]));
      if (v.arrays.at("types")[i] != (dim == 2 ? 9 : 12)) return Result::fail("vtu-types", "cell type " + fmt(v.arrays.at("types")[i]));
      std::set<double> ids;
      for (size_t k = 0; k < vpc; ++k)
        {
          const double id = v.arrays.at("connectivity")[i * vpc + k];
          if (id < 0 || id >= static_cast<double>(np) || std::floor(id) != id) return Result::fail("vtu-connectivity-range", "cell " + std::to_string(i) + " references node " + fmt(id) + " of " + std::to_string(np));
          ids.insert(id);
        }
      if (ids.size() != vpc) return Result::fail("vtu-degenerate-cell", "cell " + std::to_string(i) + " references a node twice");
    }
  // ---- (b) the requested lattice
  const double x_min = c.at("x_min").num(), x_max = c.at("x_max").num(), y_min = c.at("y_min").num(), y_max = c.at("y_max").num(), z_min = c.at("z_min").num(), z_max = c.at("z_max").num();
  std::vector<Node> ref;
  size_t want_cells = 0;
  if (type == "cartesian")
    {
      want_cells = nx * nz * (dim == 3 ? ny : 1);
      for (size_t i = 0; i <= nx; ++i)
        for (size_t j = 0; j <= (dim == 3 ? ny : 0); ++j)
          for (size_t k = 0; k <= nz; ++k)
            {
              const double z = z_min + static_cast<double>(k) * (z_max - z_min) / static_cast<double>(nz);
              ref.push_back({x_min + static_cast<double>(i) * (x_max - x_min) / static_cast<double>(nx), dim == 3 ? y_min + static_cast<double>(j) * (y_max - y_min) / static_cast<double>(ny) : z, dim == 3 ? z : 0.0, z_max - z});
            }
    }
  else if (type == "chunk")
    {
      want_cells = nx * nz * (dim == 3 ? ny : 1);
      for (size_t i = 0; i <= nx; ++i)
        for (size_t j = 0; j <= (dim == 3 ? ny : 0); ++j)
          for (size_t k = 0; k <= nz; ++k)
            {
              const double lon = (x_min + static_cast<double>(i) * (x_max - x_min) / static_cast<double>(nx)) * DEG;
              const double lat = dim == 3 ? (y_min + static_cast<double>(j) * (y_max - y_min) / static_cast<double>(ny)) * DEG : 0.0;
              const double rad = z_min + static_cast<double>(k) * (z_max - z_min) / static_cast<double>(nz);
              if (dim == 3) { const auto p = sph2cart(rad, lon, lat); ref.push_back({p[0], p[1], p[2], z_max - rad}); }
              else ref.push_back({rad * std::cos(lon), rad * std::sin(lon), 0.0, z_max - rad});
            }
    }
  else if (type == "annulus")
    {
      // documented derivation: radial cells as requested, tangential cells so that cells are about square at the outer radius
      const double dr = (z_max - z_min) / static_cast<double>(nz);
      const size_t nt = static_cast<size_t>((2.0 * PI * z_max) / dr);
      want_cells = nt * nz;
      for (size_t j = 0; j <= nz; ++j)
        for (size_t i = 0; i < nt; ++i)
          {
            const double th = 2.0 * PI * static_cast<double>(i) / static_cast<double>(nt), rad = z_min + static_cast<double>(j) * dr;
            ref.push_back({rad * std::cos(th), rad * std::sin(th), 0.0, z_max - rad});
          }
    }
  auto file_node = [&](size_t i) { return Node{v.arrays.at("Points")[3 * i], v.arrays.at("Points")[3 * i + 1], v.arrays.at("Points")[3 * i + 2], v.arrays.at("Depth")[i]}; };
  const double scale = std::max({std::fabs(x_min), std::fabs(x_max), std::fabs(z_max), type == "cartesian" ? std::fabs(y_max) : 0.0, 1.0});
  const double ptol = 2e-5 * (type == "cartesian" ? scale : z_max);
  std::vector<long> match(np, -1); // file node -> reference node
  if (!ref.empty())
    {
      if (ncell != want_cells) return Result::fail("grid-cell-count", type + ": " + std::to_string(ncell) + " cells written, the request gives " + std::to_string(want_cells));
      if (np != ref.size()) return Result::fail("grid-node-count", type + ": " + std::to_string(np) + " nodes written, the requested lattice has " + std::to_string(ref.size()));
      std::vector<char> used(ref.size(), 0);
      for (size_t i = 0; i < np; ++i)
        {
          const Node n = file_node(i);
          for (size_t j = 0; j < ref.size(); ++j)
            if (!used[j] && std::fabs(n.x - ref[j].x) <= ptol && std::fabs(n.y - ref[j].y) <= ptol && std::fabs(n.z - ref[j].z) <= ptol) { used[j] = 1; match[i] = static_cast<long>(j); break; }
          if (match[i] < 0) return Result::fail("grid-node-not-on-lattice", type + ": node " + std::to_string(i) + " (" + fmt(n.x) + "," + fmt(n.y) + "," + fmt(n.z) + ") is not a node of the requested lattice");
        }
    }
  // ---- (c) depth, (d) values
  PropList pl = {{{1, 0, 0}}, {{5, 0, 0}}, {{4, 0, 0}}};
  for (unsigned k = 0; k < ncomp; ++k) pl.push_back({{2, k, 0}});
  std::set<double> tags_seen;
  bool any_inside = false;
  for (size_t i = 0; i < np; ++i)
    {
      const Node fn = file_node(i);
      const Node n = match[i] >= 0 ? ref[static_cast<size_t>(match[i])] : fn;
      // depth = distance below the top of the grid
      const double rad = dim == 3 ? std::sqrt(fn.x * fn.x + fn.y * fn.y + fn.z * fn.z) : std::sqrt(fn.x * fn.x + fn.y * fn.y);
      const double want_depth = type == "cartesian" ? z_max - (dim == 3 ? fn.z : fn.y) : z_max - rad;
      if (std::fabs(fn.depth - (match[i] >= 0 ? n.depth : want_depth)) > 2e-5 * z_max + 1e-6)
        return Result::fail("grid-depth", type + ": node " + std::to_string(i) + " has Depth " + fmt(fn.depth) + ", its distance below the top of the grid is " + fmt(match[i] >= 0 ? n.depth : want_depth));
      std::vector<double> lib;
      auto eval = [&](const Node &q) {
        if (dim == 2) return W->properties(std::array<double, 2>{{q.x, q.y}}, q.depth, pl);
        return W->properties(std::array<double, 3>{{q.x, q.y, q.z}}, q.depth, pl);
      };
      try { lib = eval(n); } catch (const std::exception &) { r.classes.push_back("library throws at a node(skipped)"); continue; }
      r.inner++;
      if (lib[4] != -1) { any_inside = true; r.inner_nt++; }
      tags_seen.insert(v.arrays.at("Tag")[i]);
      std::vector<double> got = {v.arrays.at("Temperature")[i], v.arrays.at("velocity")[3 * i], v.arrays.at("velocity")[3 * i + 1], v.arrays.at("velocity")[3 * i + 2], v.arrays.at("Tag")[i]};
      for (unsigned k = 0; k < ncomp; ++k) got.push_back(v.arrays.at("Composition " + std::to_string(k))[i]);
      bool same = true;
      size_t bad = 0;
      for (size_t k = 0; k < got.size(); ++k) if (!close_rel(got[k], lib[k], 2e-5, 1e-9)) { same = false; bad = k; break; }
      if (same) continue;
      // boundary-robust: nodes are printed with 6 digits; if the library's own answer changes between the printed and the exact position, skip
      bool ambiguous = false;
      try
        {
          const std::vector<double> l2 = eval(fn);
          for (size_t k = 0; k < l2.size(); ++k) if (!close_rel(l2[k], lib[k], 1e-6, 1e-9)) ambiguous = true;
          for (double d : {-1.0, 1.0})
            {
              Node q = n; q.depth += d * 1e-6 * z_max;
              const std::vector<double> l3 = eval(q);
              for (size_t k = 0; k < l3.size(); ++k) if (!close_rel(l3[k], lib[k], 1e-4, 1e-9)) ambiguous = true;
            }
        }
      catch (const std::exception &) { ambiguous = true; }
      if (ambiguous) { r.classes.push_back("boundary-ambiguous node(skipped)"); continue; }
      static const char *names[] = {"Temperature", "velocity x", "velocity y", "velocity z", "Tag"};
      return Result::fail("grid-node-value", type + " dim " + std::to_string(dim) + ": node " + std::to_string(i) + " at (" + fmt(n.x) + "," + fmt(n.y) + "," + fmt(n.z) + ") depth " + fmt(n.depth) + " stores " + (bad < 5 ? names[bad] : ("Composition " + std::to_string(bad - 5)).c_str()) + " = " + fmt(got[bad]) + ", the library returns " + fmt(lib[bad]));
    }
  r.nontrivial = any_inside && tags_seen.size() >= 2;
  // ---- (e) filtered / by-tag outputs: exactly the cells selected by the tag rule, node values unchanged
  auto cell_signatures = [&](const Vtu &m, const std::function<bool(int)> &keep, bool apply) {
    std::multiset<std::string> sigs;
    const size_t mcells = static_cast<size_t>(m.n_cells);
    for (size_t i = 0; i < mcells; ++i)
      {
        int highest = -1;
        std::vector<std::string> verts;
        for (size_t k = 0; k < vpc; ++k)
          {
            const size_t id = static_cast<size_t>(m.arrays.at("connectivity")[i * vpc + k]);
            highest = std::max(highest, static_cast<int>(m.arrays.at("Tag")[id]));
            std::string s;
            for (int a = 0; a < 3; ++a) s += fmt(m.arrays.at("Points")[3 * id + static_cast<size_t>(a)]) + ",";
            s += fmt(m.arrays.at("Depth")[id]) + "," + fmt(m.arrays.at("Temperature")[id]) + "," + fmt(m.arrays.at("Tag")[id]);
            for (int a = 0; a < 3; ++a) s += "," + fmt(m.arrays.at("velocity")[3 * id + static_cast<size_t>(a)]);
            for (unsigned cc = 0; cc < ncomp; ++cc) s += "," + fmt(m.arrays.at("Composition " + std::to_string(cc))[id]);
            verts.push_back(s);
          }
        if (apply && !keep(highest)) continue;
        std::string sig;
        for (auto &s : verts) sig += s + "|"; // vertex order inside a cell is part of the cell
        sigs.insert(sig);
      }
    return sigs;
  };
  const std::string flags = c.at("flags").str();
  auto check_sub = [&](const std::string &file, const std::function<bool(int)> &keep, const std::string &what) -> std::string {
    const Vtu f = read_vtu(file);
    if (!f.ok) return what + ": " + f.error;
    for (const char *n : {"Depth", "Temperature", "velocity", "Tag", "Points", "connectivity", "offsets", "types"}) if (!f.arrays.count(n)) return what + ": array missing";
    if (f.arrays.at("Points").size() != 3 * static_cast<size_t>(f.n_points) || f.arrays.at("connectivity").size() != vpc * static_cast<size_t>(f.n_cells)) return what + ": array sizes do not match the counts";
    for (double id : f.arrays.at("connectivity")) if (id < 0 || id >= static_cast<double>(f.n_points)) return what + ": connectivity out of range";
    for (size_t i = 0; i < static_cast<size_t>(f.n_cells); ++i) if (f.arrays.at("offsets")[i] != static_cast<double>((i + 1) * vpc)) return what + ": offsets wrong";
    if (cell_signatures(v, keep, true) != cell_signatures(f, keep, false)) return what + ": the cells written are not exactly the cells of the main file selected by the tag rule (with unchanged node values)";
    return "";
  };
  if (flags.find("--filtered") != std::string::npos)
    {
      const std::string e = check_sub(dir + "/w.filtered.vtu", [&](int t) { return t >= 0 && W->feature_tags[static_cast<size_t>(t)] != "mantle layer"; }, "filtered output");
      if (!e.empty()) return Result::fail("grid-filtered", e);
      r.classes.push_back("--filtered");
    }
  if (flags.find("--by-tag") != std::string::npos)
    {
      for (size_t idx = 0; idx < W->feature_tags.size(); ++idx)
        {
          if (W->feature_tags[idx] == "mantle layer") continue;
          const std::string e = check_sub(dir + "/w." + std::to_string(idx) + ".vtu", [&](int t) { return t == static_cast<int>(idx); }, "by-tag output " + std::to_string(idx) + " (" + W->feature_tags[idx] + ")");
          if (!e.empty()) return Result::fail("grid-by-tag", e);
        }
      r.classes.push_back("--by-tag");
    }
  return r;
}

int main(int argc, char **argv)
{
  return run_main("C18", argc, argv,
  {
    {"grid", "worlds with a cross section x grid files: cartesian / chunk (2D and 3D), annulus (2D), sphere (3D); bounds, 1..12 x 1..8 x 1..10 cells, 0..4 compositions, -j 1/2/3/7, --filtered / --by-tag. Oracle: (a) well-formed VTU (counts, array sizes, index ranges, offsets, cell types, no degenerate cell), (b) node multiset = the requested lattice and cell count = the requested product (cartesian, chunk; annulus with the derived tangential count; sphere: well-formedness and values only), (c) Depth = distance below the top, (d) every node value = the library's answer at the lattice node (print precision, boundary-robust), (e) filtered / by-tag files = the cells of the main file selected by the tag rule. Non-trivial: some node inside a feature and >=2 distinct tags in the mesh", 40, gen_grid, check_grid},
  });
}
