// C18 — gwb-grid writes the requested mesh and the library's values at its nodes.
#include "../gen.h"

#include <sys/wait.h>
#include <cstring>
#include <cctype>

using namespace vf;
namespace WB = WorldBuilder;

static int run_cmd(const std::string &cmd, std::string &out)
{
  out.clear();
  FILE *p = popen(cmd.c_str(), "r");
  if (!p) return -1;
  char buf[4096];
  while (size_t n = fread(buf, 1, sizeof buf, p)) out.append(buf, n);
  const int st = pclose(p);
  return WIFEXITED(st) ? WEXITSTATUS(st) : 128 + (WIFSIGNALED(st) ? WTERMSIG(st) : 0);
}

// ---------------------------------------------------------------- reader of VTK XML UnstructuredGrid files, written from the VTK file
// format description and independent of the writer under test. DataArray formats: "ascii"; "binary" (base64 inline: a header of
// header_type giving the byte count, then the data); "appended" with an <AppendedData encoding="base64|raw"> section addressed by
// offset (uncompressed: [bytes][data]; with compressor="vtkZLibDataCompressor": [#blocks][block size][last block size][compressed
// sizes...] followed by the zlib blocks). A base64 stream is decoded quantum by quantum, so a header that was encoded on its own
// (with '=' padding) and one encoded together with its data are both read, as VTK's own reader does.
struct Vtu
{
  bool ok = false;
  std::string error;
  long n_points = -1, n_cells = -1;
  std::string format;
  std::map<std::string, std::vector<double>> arrays; // by Name; the unnamed Points array is "Points"
};
static std::string attr(const std::string &tag, const std::string &name)
{
  size_t p = 0;
  while ((p = tag.find(name + "=\"", p)) != std::string::npos)
    {
      if (p == 0 || tag[p - 1] == ' ' || tag[p - 1] == '\n' || tag[p - 1] == '\t') break;
      ++p;
    }
  if (p == std::string::npos) return "";
  const size_t a = p + name.size() + 2, b = tag.find('"', a);
  return tag.substr(a, b - a);
}
static size_t type_size(const std::string &t)
{
  if (t == "Float64" || t == "Int64" || t == "UInt64") return 8;
  if (t == "Float32" || t == "Int32" || t == "UInt32") return 4;
  if (t == "Int16" || t == "UInt16") return 2;
  if (t == "Int8" || t == "UInt8") return 1;
  return 0;
}
static double read_as(const std::string &t, const unsigned char *p)
{
  if (t == "Float64") { double v; std::memcpy(&v, p, 8); return v; }
  if (t == "Float32") { float v; std::memcpy(&v, p, 4); return v; }
  if (t == "Int64") { int64_t v; std::memcpy(&v, p, 8); return static_cast<double>(v); }
  if (t == "UInt64") { uint64_t v; std::memcpy(&v, p, 8); return static_cast<double>(v); }
  if (t == "Int32") { int32_t v; std::memcpy(&v, p, 4); return v; }
  if (t == "UInt32") { uint32_t v; std::memcpy(&v, p, 4); return v; }
  if (t == "Int16") { int16_t v; std::memcpy(&v, p, 2); return v; }
  if (t == "UInt16") { uint16_t v; std::memcpy(&v, p, 2); return v; }
  if (t == "Int8") { int8_t v; std::memcpy(&v, p, 1); return v; }
  uint8_t v; std::memcpy(&v, p, 1); return v;
}
// decodes `want` bytes from the base64 text starting at text[pos]; advances pos past the quanta consumed; false if the text ends or
// holds a character outside the alphabet before `want` bytes were obtained
static bool b64_take(const std::string &text, size_t &pos, size_t end, size_t want, std::vector<unsigned char> &out)
{
  auto val = [](char ch) -> int {
    if (ch >= 'A' && ch <= 'Z') return ch - 'A';
    if (ch >= 'a' && ch <= 'z') return ch - 'a' + 26;
    if (ch >= '0' && ch <= '9') return ch - '0' + 52;
    if (ch == '+') return 62;
    if (ch == '/') return 63;
    return -1;
  };
  out.clear();
  while (out.size() < want)
    {
      if (pos + 4 > end) return false;
      int v[4]; int pad = 0;
      for (int i = 0; i < 4; ++i)
        {
          const char ch = text[pos + static_cast<size_t>(i)];
          if (ch == '=') { v[i] = 0; pad++; }
          else { v[i] = val(ch); if (v[i] < 0 || pad) return false; }
        }
      if (pad > 2) return false;
      pos += 4;
      const unsigned b = (static_cast<unsigned>(v[0]) << 18) | (static_cast<unsigned>(v[1]) << 12) | (static_cast<unsigned>(v[2]) << 6) | static_cast<unsigned>(v[3]);
      out.push_back(static_cast<unsigned char>(b >> 16));
      if (pad < 2) out.push_back(static_cast<unsigned char>((b >> 8) & 255));
      if (pad < 1) out.push_back(static_cast<unsigned char>(b & 255));
    }
  return true;
}
#ifdef VF_HAVE_ZLIB
#include <zlib.h>
#endif
static Vtu read_vtu(const std::string &path)
{
  Vtu v;
  std::ifstream f(path, std::ios::binary);
  if (!f) { v.error = "cannot open " + path; return v; }
  std::stringstream ss; ss << f.rdbuf();
  const std::string t = ss.str();
  const size_t vf = t.find("<VTKFile");
  if (vf == std::string::npos || t.rfind("</VTKFile>") == std::string::npos) { v.error = "not a complete VTKFile document"; return v; }
  const std::string head = t.substr(vf, t.find('>', vf) - vf);
  std::string header_type = attr(head, "header_type");
  if (header_type.empty()) header_type = "UInt32";
  const size_t hs = type_size(header_type);
  if (hs != 4 && hs != 8) { v.error = "header_type " + header_type; return v; }
  if (attr(head, "byte_order") != "LittleEndian") { v.error = "byte_order is '" + attr(head, "byte_order") + "' on a little-endian machine"; return v; }
  const bool compressed = !attr(head, "compressor").empty();
  if (compressed && attr(head, "compressor") != "vtkZLibDataCompressor") { v.error = "unknown compressor " + attr(head, "compressor"); return v; }
  const size_t pc = t.find("<Piece");
  if (pc == std::string::npos) { v.error = "no Piece"; return v; }
  const std::string piece = t.substr(pc, t.find('>', pc) - pc);
  v.n_points = std::atol(attr(piece, "NumberOfPoints").c_str());
  v.n_cells = std::atol(attr(piece, "NumberOfCells").c_str());
  // the appended section, if any
  size_t app_begin = std::string::npos, app_end = std::string::npos;
  std::string app_encoding;
  const size_t ap = t.find("<AppendedData");
  const size_t xml_end = ap == std::string::npos ? t.size() : ap;
  if (ap != std::string::npos)
    {
      const size_t e = t.find('>', ap);
      app_encoding = attr(t.substr(ap, e - ap), "encoding");
      const size_t us = t.find('_', e);
      const size_t close = t.rfind("</AppendedData>");
      if (us == std::string::npos || close == std::string::npos || close < us) { v.error = "AppendedData section without '_' marker or end tag"; return v; }
      app_begin = us + 1; app_end = close;
      if (app_encoding != "base64" && app_encoding != "raw") { v.error = "AppendedData encoding '" + app_encoding + "'"; return v; }
    }
  auto header_value = [&](const unsigned char *p) -> uint64_t { if (hs == 8) { uint64_t x; std::memcpy(&x, p, 8); return x; } uint32_t x; std::memcpy(&x, p, 4); return x; };
  size_t pos = 0;
  const size_t points_at = t.find("<Points>");
  while ((pos = t.find("<DataArray", pos)) != std::string::npos && pos < xml_end)
    {
      const size_t e = t.find('>', pos);
      const std::string tag = t.substr(pos, e - pos);
      const bool empty_tag = e > 0 && t[e - 1] == '/';
      std::string name = attr(tag, "Name");
      if (name.empty() && points_at != std::string::npos && pos > points_at) name = "Points";
      const std::string fmt_ = attr(tag, "format"), type = attr(tag, "type");
      const size_t ts = type_size(type);
      if (ts == 0) { v.error = "DataArray " + name + ": type '" + type + "'"; return v; }
      if (v.format.empty()) v.format = fmt_ + (fmt_ == "appended" ? "/" + app_encoding : "") + (compressed ? "/zlib" : "");
      std::vector<double> vals;
      std::vector<unsigned char> bytes;
      bool have_bytes = false;
      size_t close = e;
      if (fmt_ == "ascii")
        {
          close = t.find("</DataArray>", e);
          if (empty_tag || close == std::string::npos) { v.error = "unterminated DataArray " + name; return v; }
          const char *p = t.c_str() + e + 1, *end = t.c_str() + close;
          while (p < end)
            {
              char *q = nullptr;
              const double d = std::strtod(p, &q);
              if (q == p) { ++p; continue; }
              vals.push_back(d);
              p = q;
            }
        }
      else if (fmt_ == "binary")
        {
          close = t.find("</DataArray>", e);
          if (empty_tag || close == std::string::npos) { v.error = "unterminated DataArray " + name; return v; }
          if (compressed) { v.error = "inline compressed data is not produced by any documented mode"; return v; }
          size_t q = e + 1;
          while (q < close && std::isspace(static_cast<unsigned char>(t[q]))) ++q;
          std::vector<unsigned char> h;
          if (!b64_take(t, q, close, hs, h)) { v.error = "DataArray " + name + ": base64 length header unreadable"; return v; }
          const uint64_t nbytes = header_value(h.data());
          // bytes decoded beyond the header within the same quanta belong to the data (header and data encoded as one stream)
          std::vector<unsigned char> rest(h.begin() + static_cast<long>(hs), h.end());
          if (nbytes > t.size()) { v.error = "DataArray " + name + ": length header says " + std::to_string(nbytes) + " bytes, the file has " + std::to_string(t.size()); return v; }
          std::vector<unsigned char> d;
          if (nbytes > rest.size() && !b64_take(t, q, close, nbytes - rest.size(), d)) { v.error = "DataArray " + name + ": base64 data shorter than the " + std::to_string(nbytes) + " bytes its header announces"; return v; }
          bytes = rest; bytes.insert(bytes.end(), d.begin(), d.end()); bytes.resize(nbytes);
          while (q < close && std::isspace(static_cast<unsigned char>(t[q]))) ++q;
          if (q != close) { v.error = "DataArray " + name + ": characters left after the announced " + std::to_string(nbytes) + " bytes"; return v; }
          have_bytes = true;
        }
      else if (fmt_ == "appended")
        {
          if (app_begin == std::string::npos) { v.error = "DataArray " + name + " is appended but the file has no AppendedData section"; return v; }
          const std::string off = attr(tag, "offset");
          if (off.empty()) { v.error = "DataArray " + name + ": no offset"; return v; }
          const size_t offset = static_cast<size_t>(std::atoll(off.c_str()));
          if (app_begin + offset >= app_end) { v.error = "DataArray " + name + ": offset " + off + " lies outside the appended data (" + std::to_string(app_end - app_begin) + " bytes)"; return v; }
          if (!empty_tag) { close = t.find("</DataArray>", e); if (close == std::string::npos) { v.error = "unterminated DataArray " + name; return v; } }
          if (app_encoding == "base64")
            {
              if (compressed) { v.error = "base64 + compressor is not produced by any documented mode"; return v; }
              if (offset % 4 != 0) { v.error = "DataArray " + name + ": base64 offset " + off + " is not a multiple of 4"; return v; }
              size_t q = app_begin + offset;
              std::vector<unsigned char> h;
              if (!b64_take(t, q, app_end, hs, h)) { v.error = "DataArray " + name + ": base64 length header at offset " + off + " unreadable"; return v; }
              const uint64_t nbytes = header_value(h.data());
              if (nbytes > t.size()) { v.error = "DataArray " + name + ": the length header found at offset " + off + " says " + std::to_string(nbytes) + " bytes, the whole file has " + std::to_string(t.size()); return v; }
              std::vector<unsigned char> rest(h.begin() + static_cast<long>(hs), h.end()), d;
              if (nbytes > rest.size() && !b64_take(t, q, app_end, nbytes - rest.size(), d)) { v.error = "DataArray " + name + ": appended base64 data shorter than the " + std::to_string(nbytes) + " bytes announced at offset " + off; return v; }
              bytes = rest; bytes.insert(bytes.end(), d.begin(), d.end()); bytes.resize(nbytes);
            }
          else
            {
              const unsigned char *base = reinterpret_cast<const unsigned char *>(t.data()) + app_begin + offset;
              const size_t avail = app_end - (app_begin + offset);
              if (!compressed)
                {
                  if (avail < hs) { v.error = "DataArray " + name + ": no room for a length header at offset " + off; return v; }
                  const uint64_t nbytes = header_value(base);
                  if (nbytes > avail - hs) { v.error = "DataArray " + name + ": the length header at offset " + off + " says " + std::to_string(nbytes) + " bytes, only " + std::to_string(avail - hs) + " follow"; return v; }
                  bytes.assign(base + hs, base + hs + nbytes);
                }
              else
                {
#ifdef VF_HAVE_ZLIB
                  if (avail < 3 * hs) { v.error = "DataArray " + name + ": no room for a compression header at offset " + off; return v; }
                  const uint64_t nblocks = header_value(base), bsize = header_value(base + hs), last = header_value(base + 2 * hs);
                  if (nblocks > avail / hs || avail < (3 + nblocks) * hs) { v.error = "DataArray " + name + ": compression header at offset " + off + " announces " + std::to_string(nblocks) + " blocks"; return v; }
                  size_t at = (3 + nblocks) * hs;
                  for (uint64_t b = 0; b < nblocks; ++b)
                    {
                      const uint64_t csize = header_value(base + (3 + b) * hs);
                      if (csize > avail - at) { v.error = "DataArray " + name + ": compressed block " + std::to_string(b) + " exceeds the file"; return v; }
                      const uint64_t usize = (b + 1 == nblocks && last != 0) ? last : bsize;
                      std::vector<unsigned char> ub(usize);
                      uLongf got = usize;
                      if (uncompress(ub.data(), &got, base + at, csize) != Z_OK || got != usize) { v.error = "DataArray " + name + ": zlib block " + std::to_string(b) + " does not inflate to the announced " + std::to_string(usize) + " bytes"; return v; }
                      bytes.insert(bytes.end(), ub.begin(), ub.end());
                      at += csize;
                    }
#else
                  v.error = "compressed file but the harness was built without zlib"; return v;
#endif
                }
            }
          have_bytes = true;
        }
      else { v.error = "DataArray " + name + ": format '" + fmt_ + "'"; return v; }
      if (have_bytes)
        {
          if (bytes.size() % ts != 0) { v.error = "DataArray " + name + ": " + std::to_string(bytes.size()) + " bytes are not a whole number of " + type + " values"; return v; }
          vals.reserve(bytes.size() / ts);
          for (size_t i = 0; i < bytes.size(); i += ts) vals.push_back(read_as(type, bytes.data() + i));
        }
      if (v.arrays.count(name)) { v.error = "two DataArrays named '" + name + "'"; return v; }
      v.arrays[name] = vals;
      pos = close + 1;
    }
  v.ok = true;
  return v;
}

// ---------------------------------------------------------------- generator
static J gen_grid(Chooser &ch)
{
  J c = J::obj();
  const std::string type = ch.pick<std::string>({"cartesian", "cartesian", "chunk", "chunk", "annulus", "sphere"});
  c["grid_type"] = type;
  g::Opt o;
  o.min_features = 1; o.max_features = 4; o.operations = true; o.cross_section = 2; o.cooling_models = false;
  o.allow_spherical = type != "cartesian"; o.allow_cartesian = type == "cartesian";
  g::GW w = g::gen_world(ch, o);
  // the grid's outer radius is the world's radius so that grid depths and world depths agree
  c["world"] = w.root.dump();
  const int dim = type == "annulus" ? 2 : (type == "sphere" ? 3 : (ch.flip() ? 2 : 3));
  c["dim"] = dim;
  c["compositions"] = static_cast<int>(ch.range(0, 4));
  const std::array<double, 2> k = w.feats[0].kernel;
  if (type == "cartesian")
    {
      c["x_min"] = dim == 2 ? ch.lattice(-400e3, 0, 50e3) : k[0] - ch.lattice(200e3, 900e3, 50e3);
      c["x_max"] = dim == 2 ? ch.lattice(300e3, 1200e3, 50e3) : k[0] + ch.lattice(200e3, 900e3, 50e3);
      c["y_min"] = k[1] - ch.lattice(200e3, 900e3, 50e3); c["y_max"] = k[1] + ch.lattice(200e3, 900e3, 50e3);
      c["z_max"] = w.fr.H; c["z_min"] = w.fr.H - ch.lattice(100e3, 500e3, 50e3);
    }
  else
    {
      c["z_max"] = w.fr.R; c["z_min"] = w.fr.R - ch.lattice(200e3, 900e3, 50e3);
      if (type == "chunk")
        {
          c["x_min"] = dim == 2 ? ch.lattice(-10, 0, 1) : k[0] - ch.lattice(2, 12, 1); c["x_max"] = dim == 2 ? ch.lattice(5, 30, 1) : k[0] + ch.lattice(2, 12, 1);
          c["y_min"] = std::max(-89.0, k[1] - ch.lattice(2, 12, 1)); c["y_max"] = std::min(89.0, k[1] + ch.lattice(2, 12, 1));
        }
      else { c["x_min"] = 0.0; c["x_max"] = 360.0; c["y_min"] = -90.0; c["y_max"] = 90.0; }
    }
  c["nx"] = static_cast<int>(ch.range(1, type == "sphere" ? 4 : 12));
  c["ny"] = type == "sphere" ? static_cast<int>(c["nx"].num()) : static_cast<int>(ch.range(1, 8));
  c["nz"] = static_cast<int>(ch.range(1, type == "annulus" ? 3 : 10));
  c["j"] = ch.pick<int>({1, 2, 3, 7});
  c["flags"] = ch.pick<std::string>({"", "--filtered", "--by-tag", "--filtered --by-tag"});
  // every write mode the tool passes on to its VTU writer; "" = the line is absent (documented default: ASCII)
  c["format"] = ch.pick<std::string>({"ASCII", "ASCII", "", "Base64Inline", "Base64Appended", "Base64Appended", "RawBinary", "RawBinaryCompressed", "RawBinaryCompressed", "base64appended"});
  c["sph"] = w.fr.sph; c["R"] = w.fr.R; c["H"] = w.fr.H;
  if (ch.chance(12)) c["reslimit"] = static_cast<int>(ch.range(1, 12));
  // 45%: the same requests written differently - lines in another order, '#' comment lines in between, counts zero-padded
  // (n_cell_x = 010 asks for ten cells), bounds in exponent notation or with a trailing '.0', a comma behind a value
  if (ch.chance(45))
    {
      J st = J::obj();
      st["perm"] = static_cast<double>(ch.range(0, 1000000));
      st["comments"] = ch.flip();
      st["pad"] = ch.pick<int>({0, 2, 3, 3});
      st["spelling"] = static_cast<int>(ch.range(0, 2));
      st["comma"] = ch.chance(30);
      c["style"] = st;
    }
  return c;
}

// a bound in another spelling of the same number: exponent notation with the shortest mantissa that round-trips, or a trailing ".0"
static std::string respell(double v, int how)
{
  if (how == 1)
    for (int prec = 1; prec <= 17; ++prec)
      {
        char buf[64];
        std::snprintf(buf, sizeof buf, "%.*e", prec - 1, v);
        if (std::strtod(buf, nullptr) == v) return buf;
      }
  if (how == 2 && v == std::floor(v) && std::fabs(v) < 1e15) { char buf[64]; std::snprintf(buf, sizeof buf, "%.1f", v); return buf; }
  return fmt(v);
}

static std::string grid_text(const J &c)
{
  const J st = c.has("style") ? c.at("style") : J::obj();
  const int pad = st.has("pad") ? static_cast<int>(st.at("pad").num()) : 0, spelling = st.has("spelling") ? static_cast<int>(st.at("spelling").num()) : 0;
  const std::string comma = st.has("comma") && st.at("comma").boolean() ? "," : "";
  auto count = [&](double n) { char buf[32]; std::snprintf(buf, sizeof buf, "%0*u", pad, static_cast<unsigned>(n)); return std::string(buf); };
  std::vector<std::string> lines;
  lines.push_back("grid_type = " + c.at("grid_type").str());
  lines.push_back("dim = " + count(c.at("dim").num()));
  lines.push_back("compositions = " + count(c.at("compositions").num()));
  const std::string format = c.has("format") ? c.at("format").str() : "ASCII";
  if (!format.empty()) lines.push_back("vtu_output_format = " + format);
  for (const char *k : {"x_min", "x_max", "y_min", "y_max", "z_min", "z_max"}) lines.push_back(std::string(k) + " = " + respell(c.at(k).num(), spelling) + comma);
  lines.push_back("n_cell_x = " + count(c.at("nx").num()) + comma);
  lines.push_back("n_cell_y = " + count(c.at("ny").num()));
  lines.push_back("n_cell_z = " + count(c.at("nz").num()));
  if (st.has("perm"))
    {
      // a permutation derived from one generated number (a fixed linear congruence, no randomness of its own)
      uint64_t x = static_cast<uint64_t>(st.at("perm").num()) * 2654435761u + 12345u;
      for (size_t i = lines.size(); i > 1; --i) { x = x * 6364136223846793005ull + 1442695040888963407ull; std::swap(lines[i - 1], lines[(x >> 33) % i]); }
    }
  std::string grid;
  for (size_t i = 0; i < lines.size(); ++i)
    {
      if (st.has("comments") && st.at("comments").boolean() && i % 3 == 1) grid += "# n_cell_x = 77 is what this line does not ask for\n";
      grid += lines[i] + "\n";
    }
  return grid;
}

struct Node { double x, y, z, depth; };

static Result check_grid(const J &c)
{
  Result r;
  const std::string exe = env("VERIF_GWB_GRID", "");
  if (exe.empty()) throw std::runtime_error("VERIF_GWB_GRID not set");
  const std::string dir = scratch_dir() + "/c18";
  { std::string cmd = "rm -rf '" + dir + "' && mkdir -p '" + dir + "'"; if (std::system(cmd.c_str())) {} }
  write_file(dir + "/w.wb", c.at("world").str());
  const std::string type = c.at("grid_type").str();
  const int dim = static_cast<int>(c.at("dim").num());
  const unsigned ncomp = static_cast<unsigned>(c.at("compositions").num());
  // --resolution-limit X ("Specify a maximum resolution"): no direction gets more than X cells
  const size_t reslimit = c.has("reslimit") ? static_cast<size_t>(c.at("reslimit").num()) : 0;
  auto capped = [&](const char *k) { const size_t n = static_cast<size_t>(c.at(k).num()); return reslimit ? std::min(n, reslimit) : n; };
  const size_t nx = capped("nx"), ny = capped("ny"), nz = capped("nz");
  const std::string format = c.has("format") ? c.at("format").str() : "ASCII";
  write_file(dir + "/g.grid", grid_text(c));
  std::string out;
  const int rc = run_cmd("cd '" + dir + "' && '" + exe + "' -j " + std::to_string(static_cast<int>(c.at("j").num())) + " " + c.at("flags").str() + (reslimit ? " --resolution-limit " + std::to_string(reslimit) : std::string()) + " w.wb g.grid 2>&1", out);
  auto W = make_world(c.at("world").str());
  r.classes.push_back(type + " dim=" + std::to_string(dim));
  r.classes.push_back("format=" + (format.empty() ? std::string("<default>") : format));
  if (reslimit) r.classes.push_back(reslimit < std::max({static_cast<size_t>(c.at("nx").num()), static_cast<size_t>(c.at("ny").num()), static_cast<size_t>(c.at("nz").num())}) ? "--resolution-limit below a requested count" : "--resolution-limit (no effect)");
  if (c.has("style")) { r.classes.push_back("grid file re-styled (line order, comments, spellings)"); if (c.at("style").at("pad").num() > 0) r.classes.push_back("zero-padded counts"); }
  if (rc != 0) return Result::fail("grid-run-failed", "gwb-grid ended with status " + std::to_string(rc) + " on a valid grid file: " + out.substr(0, 400));
  const Vtu v = read_vtu(dir + "/w.vtu");
  if (!v.ok) return Result::fail("vtu-malformed", "main output: " + v.error);
  // ---- (a) well-formed
  const size_t vpc = dim == 2 ? 4 : 8;
  for (const char *n : {"Depth", "Temperature", "velocity", "Tag", "Points", "connectivity", "offsets", "types"})
    if (!v.arrays.count(n)) return Result::fail("vtu-missing-array", std::string("array '") + n + "' missing");
  for (unsigned k = 0; k < ncomp; ++k) if (!v.arrays.count("Composition " + std::to_string(k))) return Result::fail("vtu-missing-array", "composition array " + std::to_string(k) + " missing");
  const size_t np = static_cast<size_t>(v.n_points), ncell = static_cast<size_t>(v.n_cells);
  if (v.arrays.at("Points").size() != 3 * np || v.arrays.at("Depth").size() != np || v.arrays.at("Temperature").size() != np || v.arrays.at("Tag").size() != np || v.arrays.at("velocity").size() != 3 * np)
    return Result::fail("vtu-array-size", "point arrays do not match NumberOfPoints=" + std::to_string(np));
  if (v.arrays.at("connectivity").size() != vpc * ncell || v.arrays.at("offsets").size() != ncell || v.arrays.at("types").size() != ncell)
    return Result::fail("vtu-array-size", "cell arrays do not match NumberOfCells=" + std::to_string(ncell));
  for (size_t i = 0; i < ncell; ++i)
    {
      if (v.arrays.at("offsets")[i] != static_cast<double>((i + 1) * vpc)) return Result::fail("vtu-offsets", "offset " + std::to_string(i) + " is " + fmt(v.arrays.at("offsets")[i]));
      if (v.arrays.at("types")[i] != (dim == 2 ? 9 : 12)) return Result::fail("vtu-types", "cell type " + fmt(v.arrays.at("types")[i]));
      std::set<double> ids;
      for (size_t k = 0; k < vpc; ++k)
        {
          const double id = v.arrays.at("connectivity")[i * vpc + k];
          if (id < 0 || id >= static_cast<double>(np) || std::floor(id) != id) return Result::fail("vtu-connectivity-range", "cell " + std::to_string(i) + " references node " + fmt(id) + " of " + std::to_string(np));
          ids.insert(id);
        }
      if (ids.size() != vpc) return Result::fail("vtu-degenerate-cell", "cell " + std::to_string(i) + " references a node twice");
    }
  // ---- (b) the requested lattice
  const double x_min = c.at("x_min").num(), x_max = c.at("x_max").num(), y_min = c.at("y_min").num(), y_max = c.at("y_max").num(), z_min = c.at("z_min").num(), z_max = c.at("z_max").num();
  std::vector<Node> ref;
  std::vector<std::array<size_t, 3>> ref_ijk; // lattice indices of the reference nodes, in the order of `ref`
  size_t wrap_i = 0;                           // annulus: the tangential index wraps after this many nodes
  size_t want_cells = 0;
  if (type == "cartesian")
    {
      want_cells = nx * nz * (dim == 3 ? ny : 1);
      for (size_t i = 0; i <= nx; ++i)
        for (size_t j = 0; j <= (dim == 3 ? ny : 0); ++j)
          for (size_t k = 0; k <= nz; ++k)
            {
              const double z = z_min + static_cast<double>(k) * (z_max - z_min) / static_cast<double>(nz);
              ref.push_back({x_min + static_cast<double>(i) * (x_max - x_min) / static_cast<double>(nx), dim == 3 ? y_min + static_cast<double>(j) * (y_max - y_min) / static_cast<double>(ny) : z, dim == 3 ? z : 0.0, z_max - z});
              ref_ijk.push_back({{i, j, k}});
            }
    }
  else if (type == "chunk")
    {
      want_cells = nx * nz * (dim == 3 ? ny : 1);
      for (size_t i = 0; i <= nx; ++i)
        for (size_t j = 0; j <= (dim == 3 ? ny : 0); ++j)
          for (size_t k = 0; k <= nz; ++k)
            {
              const double lon = (x_min + static_cast<double>(i) * (x_max - x_min) / static_cast<double>(nx)) * DEG;
              const double lat = dim == 3 ? (y_min + static_cast<double>(j) * (y_max - y_min) / static_cast<double>(ny)) * DEG : 0.0;
              const double rad = z_min + static_cast<double>(k) * (z_max - z_min) / static_cast<double>(nz);
              if (dim == 3) { const auto p = sph2cart(rad, lon, lat); ref.push_back({p[0], p[1], p[2], z_max - rad}); }
              else ref.push_back({rad * std::cos(lon), rad * std::sin(lon), 0.0, z_max - rad});
              ref_ijk.push_back({{i, j, k}});
            }
    }
  else if (type == "annulus")
    {
      // documented derivation: radial cells as requested, tangential cells so that cells are about square at the outer radius
      const double dr = (z_max - z_min) / static_cast<double>(nz);
      const size_t nt = static_cast<size_t>((2.0 * PI * z_max) / dr);
      want_cells = nt * nz;
      for (size_t j = 0; j <= nz; ++j)
        for (size_t i = 0; i < nt; ++i)
          {
            const double th = 2.0 * PI * static_cast<double>(i) / static_cast<double>(nt), rad = z_min + static_cast<double>(j) * dr;
            ref.push_back({rad * std::cos(th), rad * std::sin(th), 0.0, z_max - rad});
            ref_ijk.push_back({{i, 0, j}});
          }
      wrap_i = nt;
    }
  auto file_node = [&](size_t i) { return Node{v.arrays.at("Points")[3 * i], v.arrays.at("Points")[3 * i + 1], v.arrays.at("Points")[3 * i + 2], v.arrays.at("Depth")[i]}; };
  const double scale = std::max({std::fabs(x_min), std::fabs(x_max), std::fabs(z_max), type == "cartesian" ? std::fabs(y_max) : 0.0, 1.0});
  const double ptol = 2e-5 * (type == "cartesian" ? scale : z_max);
  std::vector<long> match(np, -1); // file node -> reference node
  if (!ref.empty())
    {
      if (ncell != want_cells) return Result::fail("grid-cell-count", type + ": " + std::to_string(ncell) + " cells written, the request gives " + std::to_string(want_cells));
      if (np != ref.size()) return Result::fail("grid-node-count", type + ": " + std::to_string(np) + " nodes written, the requested lattice has " + std::to_string(ref.size()));
      std::vector<char> used(ref.size(), 0);
      for (size_t i = 0; i < np; ++i)
        {
          const Node n = file_node(i);
          for (size_t j = 0; j < ref.size(); ++j)
            if (!used[j] && std::fabs(n.x - ref[j].x) <= ptol && std::fabs(n.y - ref[j].y) <= ptol && std::fabs(n.z - ref[j].z) <= ptol) { used[j] = 1; match[i] = static_cast<long>(j); break; }
          if (match[i] < 0) return Result::fail("grid-node-not-on-lattice", type + ": node " + std::to_string(i) + " (" + fmt(n.x) + "," + fmt(n.y) + "," + fmt(n.z) + ") is not a node of the requested lattice");
        }
      // the cells cover the requested region: every cell is one cell of the lattice (its corners are the 2^dim corners of one lattice
      // cell) and every lattice cell occurs exactly once
      std::set<std::array<size_t, 3>> cells_seen;
      for (size_t ci = 0; ci < ncell; ++ci)
        {
          std::array<size_t, 3> lo{{SIZE_MAX, SIZE_MAX, SIZE_MAX}};
          std::vector<std::array<size_t, 3>> corners;
          for (size_t k = 0; k < vpc; ++k) corners.push_back(ref_ijk[static_cast<size_t>(match[static_cast<size_t>(v.arrays.at("connectivity")[ci * vpc + k])])]);
          for (auto &q : corners) for (size_t a = 0; a < 3; ++a) lo[a] = std::min(lo[a], q[a]);
          // annulus: the cell that closes the ring joins tangential index nt-1 with 0
          if (wrap_i) { bool has0 = false, haslast = false; for (auto &q : corners) { if (q[0] == 0) has0 = true; if (q[0] == wrap_i - 1) haslast = true; } if (has0 && haslast && wrap_i > 2) { lo[0] = wrap_i - 1; for (auto &q : corners) if (q[0] == 0) q[0] = wrap_i; } }
          std::set<std::array<size_t, 3>> want_c, got_c(corners.begin(), corners.end());
          for (size_t a = 0; a < 2; ++a) for (size_t b = 0; b < (dim == 3 ? 2u : 1u); ++b) for (size_t cc = 0; cc < 2; ++cc) want_c.insert({{lo[0] + a, lo[1] + b, lo[2] + cc}});
          if (got_c != want_c)
            return Result::fail("grid-cell-not-a-lattice-cell", type + " dim " + std::to_string(dim) + " (" + std::to_string(nx) + " x " + std::to_string(nz) + " cells): cell " + std::to_string(ci) + " does not join the corners of one lattice cell; it references lattice nodes " + [&] { std::string t; for (auto &q : corners) t += "(" + std::to_string(q[0]) + "," + std::to_string(q[1]) + "," + std::to_string(q[2]) + ") "; return t; }());
          if (!cells_seen.insert(lo).second) return Result::fail("grid-cell-twice", type + ": lattice cell (" + std::to_string(lo[0]) + "," + std::to_string(lo[1]) + "," + std::to_string(lo[2]) + ") is written twice");
        }
      r.classes.push_back("every cell is one lattice cell, each once");
    }
  std::vector<int> shell_of; // sphere grids: index of the radial shell of every node
  if (type == "sphere")
    {
      // The sphere grid is a closed shell mesh: 12 blocks of nx x nx quadrilaterals, extruded through nz layers. Without re-deriving
      // the block mapping: (1) 12 nx^2 nz cells; (2) by Euler's formula a closed quadrilateral surface with 12 nx^2 faces has
      // 12 nx^2 + 2 vertices, so (12 nx^2 + 2)(nz + 1) nodes, that many on each of the nz + 1 equally spaced radii from z_min to
      // z_max; (3) every cell joins 4 nodes of one shell with 4 nodes of the next; (4) the inner faces of each layer cover the
      // whole sphere exactly once: their solid angles (absolute values) add up to 4 pi - a gap makes the sum smaller, an overlap larger.
      const size_t want = 12 * nx * nx * nz, want_nodes = (12 * nx * nx + 2) * (nz + 1);
      if (ncell != want) return Result::fail("grid-cell-count", "sphere: " + std::to_string(ncell) + " cells written, 12 nx^2 nz = " + std::to_string(want));
      if (np != want_nodes) return Result::fail("grid-node-count", "sphere: " + std::to_string(np) + " nodes written, a closed shell mesh of 12 nx^2 faces and nz layers has " + std::to_string(want_nodes));
      const double dr = (z_max - z_min) / static_cast<double>(nz);
      std::vector<size_t> per_shell(nz + 1, 0);
      shell_of.assign(np, -1);
      for (size_t i = 0; i < np; ++i)
        {
          const Node n = file_node(i);
          const double rad = std::sqrt(n.x * n.x + n.y * n.y + n.z * n.z);
          const double kf = (rad - z_min) / dr;
          const long k = std::lround(kf);
          if (k < 0 || k > static_cast<long>(nz) || std::fabs(kf - static_cast<double>(k)) * dr > 2e-5 * z_max)
            return Result::fail("grid-node-not-on-lattice", "sphere: node " + std::to_string(i) + " has radius " + fmt(rad) + ", not one of the " + std::to_string(nz + 1) + " equally spaced radii between " + fmt(z_min) + " and " + fmt(z_max));
          per_shell[static_cast<size_t>(k)]++;
          shell_of[i] = static_cast<int>(k);
        }
      for (size_t k = 0; k <= nz; ++k)
        if (per_shell[k] != 12 * nx * nx + 2) return Result::fail("grid-node-count", "sphere: the shell at radius " + fmt(z_min + dr * static_cast<double>(k)) + " has " + std::to_string(per_shell[k]) + " nodes, a closed quadrilateral surface of 12 nx^2 faces has " + std::to_string(12 * nx * nx + 2));
      std::vector<double> solid(nz, 0.0);
      auto unit = [&](size_t id, double *u) { const Node n = file_node(id); const double rr = std::sqrt(n.x * n.x + n.y * n.y + n.z * n.z); u[0] = n.x / rr; u[1] = n.y / rr; u[2] = n.z / rr; };
      auto tri_angle = [&](const double *a, const double *b, const double *cc) {
        const double det = a[0] * (b[1] * cc[2] - b[2] * cc[1]) - a[1] * (b[0] * cc[2] - b[2] * cc[0]) + a[2] * (b[0] * cc[1] - b[1] * cc[0]);
        const double ab = a[0] * b[0] + a[1] * b[1] + a[2] * b[2], bc = b[0] * cc[0] + b[1] * cc[1] + b[2] * cc[2], ca = cc[0] * a[0] + cc[1] * a[1] + cc[2] * a[2];
        return std::fabs(2 * std::atan2(det, 1 + ab + bc + ca)); // Van Oosterom & Strackee
      };
      for (size_t i = 0; i < ncell; ++i)
        {
          std::vector<size_t> lower, upper;
          int k0 = 1 << 30;
          for (size_t k = 0; k < 8; ++k) k0 = std::min(k0, shell_of[static_cast<size_t>(v.arrays.at("connectivity")[i * 8 + k])]);
          for (size_t k = 0; k < 8; ++k)
            {
              const size_t id = static_cast<size_t>(v.arrays.at("connectivity")[i * 8 + k]);
              if (shell_of[id] == k0) lower.push_back(id); else if (shell_of[id] == k0 + 1) upper.push_back(id);
            }
          if (lower.size() != 4 || upper.size() != 4) return Result::fail("grid-cell-shape", "sphere: cell " + std::to_string(i) + " does not join four nodes of one shell with four nodes of the next");
          // the four lower nodes in the order the cell lists them form the quadrilateral (VTK hexahedron: 0-1-2-3 bottom)
          double u[4][3];
          for (size_t k = 0; k < 4; ++k) unit(lower[k], u[k]);
          // as a set of 4 points on the sphere: order them around their centroid to get the quadrilateral
          double cx = 0, cy = 0, cz = 0;
          for (auto &w : u) { cx += w[0]; cy += w[1]; cz += w[2]; }
          const double cn = std::sqrt(cx * cx + cy * cy + cz * cz); cx /= cn; cy /= cn; cz /= cn;
          // tangent frame at the centroid
          double e1[3] = {u[0][0] - cx * (u[0][0] * cx + u[0][1] * cy + u[0][2] * cz), u[0][1] - cy * (u[0][0] * cx + u[0][1] * cy + u[0][2] * cz), u[0][2] - cz * (u[0][0] * cx + u[0][1] * cy + u[0][2] * cz)};
          const double e1n = std::sqrt(e1[0] * e1[0] + e1[1] * e1[1] + e1[2] * e1[2]);
          for (double &x : e1) x /= e1n;
          const double e2[3] = {cy * e1[2] - cz * e1[1], cz * e1[0] - cx * e1[2], cx * e1[1] - cy * e1[0]};
          std::array<std::pair<double, size_t>, 4> ang;
          for (size_t k = 0; k < 4; ++k) ang[k] = {std::atan2(u[k][0] * e2[0] + u[k][1] * e2[1] + u[k][2] * e2[2], u[k][0] * e1[0] + u[k][1] * e1[1] + u[k][2] * e1[2]), k};
          std::sort(ang.begin(), ang.end());
          solid[static_cast<size_t>(k0)] += tri_angle(u[ang[0].second], u[ang[1].second], u[ang[2].second]) + tri_angle(u[ang[0].second], u[ang[2].second], u[ang[3].second]);
        }
      for (size_t k = 0; k < nz; ++k)
        if (std::fabs(solid[k] - 4 * PI) > 1e-3)
          return Result::fail("grid-sphere-coverage", "sphere: the cells of layer " + std::to_string(k) + " subtend a solid angle of " + fmt(solid[k]) + ", the whole sphere is " + fmt(4 * PI));
      r.classes.push_back("sphere: shell structure and full coverage verified");
    }
  // ---- (c) depth, (d) values
  PropList pl = {{{1, 0, 0}}, {{5, 0, 0}}, {{4, 0, 0}}};
  for (unsigned k = 0; k < ncomp; ++k) pl.push_back({{2, k, 0}});
  std::set<double> tags_seen;
  bool any_inside = false;
  for (size_t i = 0; i < np; ++i)
    {
      const Node fn = file_node(i);
      Node n = match[i] >= 0 ? ref[static_cast<size_t>(match[i])] : fn;
      if (type == "sphere" && !shell_of.empty())
        {
          // the node's radius is one of the nz+1 exact shell radii (verified above): put the printed position (6 significant digits)
          // back on its shell, which removes the printing error in the direction everything depends on most
          const double rad_print = std::sqrt(fn.x * fn.x + fn.y * fn.y + fn.z * fn.z), rad_exact = z_min + (z_max - z_min) * static_cast<double>(shell_of[i]) / static_cast<double>(nz);
          if (rad_print > 0) { n.x = fn.x * rad_exact / rad_print; n.y = fn.y * rad_exact / rad_print; n.z = fn.z * rad_exact / rad_print; }
          n.depth = z_max - rad_exact;
        }
      // depth = distance below the top of the grid
      const double rad = dim == 3 ? std::sqrt(fn.x * fn.x + fn.y * fn.y + fn.z * fn.z) : std::sqrt(fn.x * fn.x + fn.y * fn.y);
      const double want_depth = type == "cartesian" ? z_max - (dim == 3 ? fn.z : fn.y) : z_max - rad;
      if (std::fabs(fn.depth - (match[i] >= 0 ? n.depth : want_depth)) > 2e-5 * z_max + 1e-6)
        return Result::fail("grid-depth", type + ": node " + std::to_string(i) + " has Depth " + fmt(fn.depth) + ", its distance below the top of the grid is " + fmt(match[i] >= 0 ? n.depth : want_depth));
      std::vector<double> lib;
      auto eval = [&](const Node &q) {
        if (dim == 2) return W->properties(std::array<double, 2>{{q.x, q.y}}, q.depth, pl);
        return W->properties(std::array<double, 3>{{q.x, q.y, q.z}}, q.depth, pl);
      };
      try { lib = eval(n); } catch (const std::exception &) { r.classes.push_back("library throws at a node(skipped)"); continue; }
      r.inner++;
      if (lib[4] != -1) { any_inside = true; r.inner_nt++; }
      tags_seen.insert(v.arrays.at("Tag")[i]);
      std::vector<double> got = {v.arrays.at("Temperature")[i], v.arrays.at("velocity")[3 * i], v.arrays.at("velocity")[3 * i + 1], v.arrays.at("velocity")[3 * i + 2], v.arrays.at("Tag")[i]};
      for (unsigned k = 0; k < ncomp; ++k) got.push_back(v.arrays.at("Composition " + std::to_string(k))[i]);
      bool same = true;
      size_t bad = 0;
      for (size_t k = 0; k < got.size(); ++k) if (!close_rel(got[k], lib[k], 2e-5, 1e-9)) { same = false; bad = k; break; }
      if (same) continue;
      // boundary-robust: nodes are printed with 6 digits; if the library's own answer changes between the printed and the exact position, skip
      bool ambiguous = false;
      try
        {
          const std::vector<double> l2 = eval(fn);
          for (size_t k = 0; k < l2.size(); ++k) if (!close_rel(l2[k], lib[k], 1e-6, 1e-9)) ambiguous = true;
          for (double d : {-1.0, 1.0})
            {
              Node q = n; q.depth += d * 1e-6 * z_max;
              const std::vector<double> l3 = eval(q);
              for (size_t k = 0; k < l3.size(); ++k) if (!close_rel(l3[k], lib[k], 1e-4, 1e-9)) ambiguous = true;
            }
          // no reference lattice for the tangential position (sphere): the answer must not hinge on the last printed digit of it
          // ... and for lattice nodes not on the last bit of the node position: the tool computes its nodes with its own arithmetic
          // (radians accumulated from the bounds), so a node that sits exactly on a polygon edge (grid bounds and polygon corners
          // share the 0.25 degree lattice) may fall on the other side there
          for (int ax = 0; ax < 3; ++ax)
              for (double d : {-1.0, 1.0})
                {
                  Node q = n;
                  (ax == 0 ? q.x : ax == 1 ? q.y : q.z) += d * (match[i] < 0 ? 1e-5 : 1e-9) * z_max;
                  const std::vector<double> l4 = eval(q);
                  for (size_t k = 0; k < l4.size(); ++k) if (!close_rel(l4[k], lib[k], 1e-5, 1e-9)) ambiguous = true;
                }
        }
      catch (const std::exception &) { ambiguous = true; }
      if (ambiguous) { r.classes.push_back("boundary-ambiguous node(skipped)"); continue; }
      static const char *names[] = {"Temperature", "velocity x", "velocity y", "velocity z", "Tag"};
      return Result::fail("grid-node-value", type + " dim " + std::to_string(dim) + ": node " + std::to_string(i) + " at (" + fmt(n.x) + "," + fmt(n.y) + "," + fmt(n.z) + ") depth " + fmt(n.depth) + " stores " + (bad < 5 ? names[bad] : ("Composition " + std::to_string(bad - 5)).c_str()) + " = " + fmt(got[bad]) + ", the library returns " + fmt(lib[bad]));
    }
  r.nontrivial = any_inside && tags_seen.size() >= 2;
  // ---- (e) filtered / by-tag outputs: exactly the cells selected by the tag rule, node values unchanged
  auto cell_signatures = [&](const Vtu &m, const std::function<bool(int)> &keep, bool apply) {
    std::multiset<std::string> sigs;
    const size_t mcells = static_cast<size_t>(m.n_cells);
    for (size_t i = 0; i < mcells; ++i)
      {
        int highest = -1;
        std::vector<std::string> verts;
        for (size_t k = 0; k < vpc; ++k)
          {
            const size_t id = static_cast<size_t>(m.arrays.at("connectivity")[i * vpc + k]);
            highest = std::max(highest, static_cast<int>(m.arrays.at("Tag")[id]));
            std::string s;
            for (int a = 0; a < 3; ++a) s += fmt(m.arrays.at("Points")[3 * id + static_cast<size_t>(a)]) + ",";
            s += fmt(m.arrays.at("Depth")[id]) + "," + fmt(m.arrays.at("Temperature")[id]) + "," + fmt(m.arrays.at("Tag")[id]);
            for (int a = 0; a < 3; ++a) s += "," + fmt(m.arrays.at("velocity")[3 * id + static_cast<size_t>(a)]);
            for (unsigned cc = 0; cc < ncomp; ++cc) s += "," + fmt(m.arrays.at("Composition " + std::to_string(cc))[id]);
            verts.push_back(s);
          }
        if (apply && !keep(highest)) continue;
        std::string sig;
        for (auto &s : verts) sig += s + "|"; // vertex order inside a cell is part of the cell
        sigs.insert(sig);
      }
    return sigs;
  };
  const std::string flags = c.at("flags").str();
  auto check_sub = [&](const std::string &file, const std::function<bool(int)> &keep, const std::string &what) -> std::string {
    const Vtu f = read_vtu(file);
    if (!f.ok) return what + ": " + f.error;
    for (const char *n : {"Depth", "Temperature", "velocity", "Tag", "Points", "connectivity", "offsets", "types"}) if (!f.arrays.count(n)) return what + ": array missing";
    if (f.arrays.at("Points").size() != 3 * static_cast<size_t>(f.n_points) || f.arrays.at("connectivity").size() != vpc * static_cast<size_t>(f.n_cells)) return what + ": array sizes do not match the counts";
    for (double id : f.arrays.at("connectivity")) if (id < 0 || id >= static_cast<double>(f.n_points)) return what + ": connectivity out of range";
    for (size_t i = 0; i < static_cast<size_t>(f.n_cells); ++i) if (f.arrays.at("offsets")[i] != static_cast<double>((i + 1) * vpc)) return what + ": offsets wrong";
    if (cell_signatures(v, keep, true) != cell_signatures(f, keep, false)) return what + ": the cells written are not exactly the cells of the main file selected by the tag rule (with unchanged node values)";
    return "";
  };
  if (flags.find("--filtered") != std::string::npos)
    {
      const std::string e = check_sub(dir + "/w.filtered.vtu", [&](int t) { return t >= 0 && W->feature_tags[static_cast<size_t>(t)] != "mantle layer"; }, "filtered output");
      if (!e.empty()) return Result::fail("grid-filtered", e);
      r.classes.push_back("--filtered");
    }
  if (flags.find("--by-tag") != std::string::npos)
    {
      for (size_t idx = 0; idx < W->feature_tags.size(); ++idx)
        {
          if (W->feature_tags[idx] == "mantle layer") continue;
          const std::string e = check_sub(dir + "/w." + std::to_string(idx) + ".vtu", [&](int t) { return t == static_cast<int>(idx); }, "by-tag output " + std::to_string(idx) + " (" + W->feature_tags[idx] + ")");
          if (!e.empty()) return Result::fail("grid-by-tag", e);
        }
      r.classes.push_back("--by-tag");
    }
  return r;
}

int main(int argc, char **argv)
{
  return run_main("C18", argc, argv,
  {
    {"grid", "worlds with a cross section x grid files: cartesian / chunk (2D and 3D), annulus (2D), sphere (3D); bounds, 1..12 x 1..8 x 1..10 cells, 0..4 compositions, -j 1/2/3/7, --filtered / --by-tag. Oracle: (a) well-formed VTU (counts, array sizes, index ranges, offsets, cell types, no degenerate cell), (b) node multiset = the requested lattice, cell count = the requested product, every cell joins the corners of exactly one lattice cell and each lattice cell occurs once (cartesian, chunk; annulus with the derived tangential count; sphere: cell and node counts of a closed 12 nx^2-face shell mesh, equally spaced radii, every cell between two consecutive shells, solid angle 4 pi per layer), (c) Depth = distance below the top, (d) every node value = the library's answer at the lattice node (print precision, boundary-robust), (e) filtered / by-tag files = the cells of the main file selected by the tag rule. Non-trivial: some node inside a feature and >=2 distinct tags in the mesh", 40, gen_grid, check_grid},
  });
}
