// C10 — segment models are inherited and sections interpolate only between neighbours.
#include "../gen.h"
#include "../ref_geometry.h"

using namespace vf;
namespace WB = WorldBuilder;

static const char *KINDS[] = {"temperature models", "composition models", "grains models", "velocity models"};

static J uniform_model(Chooser &ch, int kind, const std::string &type)
{
  (void)type;
  J m = J::obj();
  if (kind == 0) { m["model"] = "uniform"; m["temperature"] = ch.lattice(300, 1800, 25); }
  else if (kind == 1) { m["model"] = "uniform"; m["compositions"] = J::arr({J(static_cast<int>(ch.range(0, 2)))}); m["fractions"] = J::arr({J(ch.lattice(0.125, 1, 0.125))}); }
  else if (kind == 2) { m["model"] = "uniform"; m["compositions"] = J::arr({J(0)}); m["Euler angles z-x-z"] = J::arr({jp(ch.lattice(0, 345, 15), ch.lattice(0, 180, 15), ch.lattice(0, 345, 15))}); m["grain sizes"] = J::arr({J(ch.lattice(0.125, 1, 0.125))}); }
  else { m["model"] = "uniform raw"; m["velocity"] = jp(ch.lattice(-4, 4, 0.5), ch.lattice(-4, 4, 0.5), ch.lattice(-4, 4, 0.5)); }
  return m;
}

static J gen_segments(Chooser &ch, const std::string &type, int nseg, int pct_models)
{
  J segs = J::arr();
  double a_prev = ch.lattice(20, 70, 5);
  for (int i = 0; i < nseg; ++i)
    {
      J s = J::obj();
      s["length"] = ch.lattice(100e3, 400e3, 25e3);
      const double t1 = ch.lattice(40e3, 150e3, 10e3);
      s["thickness"] = ch.flip() ? J::arr({J(t1)}) : J::arr({J(t1), J(ch.lattice(40e3, 150e3, 10e3))});
      const double a2 = ch.flip() ? a_prev : ch.lattice(20, 75, 5);
      s["angle"] = J::arr({J(a_prev), J(a2)});
      a_prev = a2;
      if (type == "subducting plate" && ch.chance(30)) s["top truncation"] = ch.flip() ? J::arr({J(ch.lattice(-20e3, 20e3, 5e3))}) : J::arr({J(ch.lattice(-20e3, 20e3, 5e3)), J(ch.lattice(-20e3, 20e3, 5e3))});
      for (int k = 0; k < 4; ++k) if (ch.chance(pct_models)) s[KINDS[k]] = J::arr({uniform_model(ch, k, type)});
      segs.push(s);
    }
  return segs;
}

struct LineCase { g::Frame fr; J root; g::FM m; };

static LineCase gen_line(Chooser &ch, int min_coords)
{
  LineCase lc;
  g::Opt o;
  lc.fr = g::gen_frame(ch, o);
  g::frame_to_json(lc.fr, lc.root);
  const std::string type = ch.chance(55) ? "subducting plate" : "fault";
  g::FM &m = lc.m;
  m.type = type;
  std::array<double, 2> ctr = g::gen_centre(ch, lc.fr);
  // moderate latitudes: "beside trench segment k" is decided in the longitude-latitude plane, which is only a fair
  // picture of the true geometry away from the poles
  if (lc.fr.sph) ctr[1] = std::max(-30.0, std::min(30.0, ctr[1]));
  m.kernel = ctr;
  const int nc = static_cast<int>(ch.range(min_coords, 5));
  m.coords = g::trench(ch, lc.fr, ctr, nc, 25);
  // the shared trench generator clamps latitudes at +-80 degrees, which (on a small planet, where 700 km are 23 degrees) folds the last
  // steps of a long trench into a sharp corner; the checks below rely on bends of at most 25 degrees (plus lattice rounding), so
  // such a trench is replaced by one that keeps its first heading
  {
    double worst = 0, shortest = 1e300;
    for (size_t i = 0; i + 1 < m.coords.size(); ++i)
      {
        const double ax = m.coords[i + 1][0] - m.coords[i][0], ay = m.coords[i + 1][1] - m.coords[i][1];
        shortest = std::min(shortest, std::sqrt(ax * ax + ay * ay));
        if (i + 2 < m.coords.size())
          {
            const double bx = m.coords[i + 2][0] - m.coords[i + 1][0], by = m.coords[i + 2][1] - m.coords[i + 1][1];
            worst = std::max(worst, std::fabs(std::atan2(ax * by - ay * bx, ax * bx + ay * by)) / DEG);
          }
      }
    if (worst > 32 || shortest < 100 * lc.fr.km())
      {
        const double ax = m.coords[1][0] - m.coords[0][0], ay = m.coords[1][1] - m.coords[0][1], an = std::sqrt(ax * ax + ay * ay);
        const double len = std::min(an, (lc.fr.sph ? 100.0 : 1e300) / nc); // stays within 100 degrees overall
        for (size_t i = 1; i < m.coords.size(); ++i) m.coords[i] = {{m.coords[0][0] + ax / an * len * static_cast<double>(i), m.coords[0][1] + ay / an * len * static_cast<double>(i)}};
      }
  }
  if (lc.fr.sph)
    {
      // ... the whole trench, not only its first coordinate (on a small planet 700 km are 23 degrees): shift it towards the equator
      double lo = 1e9, hi = -1e9;
      for (auto &p : m.coords) { lo = std::min(lo, p[1]); hi = std::max(hi, p[1]); }
      double shift = 0;
      if (hi > 55) shift = 55 - hi;
      if (lo + shift < -55) shift = -55 - lo;
      if (hi + shift > 60) { for (auto &p : m.coords) p[1] = 0.5 * p[1]; shift = 0; } // spans more than 110 degrees of latitude: compress
      for (auto &p : m.coords) p[1] += shift;
      m.kernel = m.coords[0];
    }
  J feat = J::obj();
  feat["model"] = type; feat["name"] = "line";
  feat["coordinates"] = g::coords_json(m.coords);
  const double dx = m.coords[1][0] - m.coords[0][0], dy = m.coords[1][1] - m.coords[0][1], dn = std::sqrt(dx * dx + dy * dy);
  const double side = ch.flip() ? 1 : -1, far = lc.fr.sph ? 40.0 : 5e6;
  m.dip_point = {{m.coords[0][0] - side * dy / dn * far, std::max(-85.0 * (lc.fr.sph ? 1 : 1e9), std::min(85.0 * (lc.fr.sph ? 1 : 1e9), m.coords[0][1] + side * dx / dn * far))}};
  feat["dip point"] = jp(m.dip_point[0], m.dip_point[1]);
  const int nseg = static_cast<int>(ch.range(1, 3));
  feat["segments"] = gen_segments(ch, type, nseg, 35);
  for (int k = 0; k < 4; ++k) if (ch.chance(65)) feat[KINDS[k]] = J::arr({uniform_model(ch, k, type)});
  // sections for a random subset of the coordinates
  J sections = J::arr();
  for (int i = 0; i < nc; ++i)
    if (ch.chance(40))
      {
        J s = J::obj();
        s["coordinate"] = i;
        s["segments"] = gen_segments(ch, type, nseg, 35);
        for (int k = 0; k < 4; ++k) if (ch.chance(35)) s[KINDS[k]] = J::arr({uniform_model(ch, k, type)});
        sections.push(s);
      }
  if (sections.size()) feat["sections"] = sections;
  double reach = 0;
  {
    double tl = 0, mt = 0;
    for (auto &sg : feat["segments"].a) { tl += sg.at("length").num(); for (auto &t : sg.at("thickness").a) mt = std::max(mt, t.num()); }
    reach = tl + mt;
  }
  m.reach = reach; m.dmin = 0; m.dmax = reach;
  lc.root["features"] = J::arr({feat});
  return lc;
}

// (a) write the inherited models explicitly into every segment
static J push_down(const J &root)
{
  J r = root;
  J &f = r["features"][0];
  auto fill = [&](J &segs, const J *section) {
    for (auto &s : segs.a)
      for (int k = 0; k < 4; ++k)
        if (!s.has(KINDS[k]))
          {
            if (section && section->has(KINDS[k])) s[KINDS[k]] = section->at(KINDS[k]);
            else if (f.has(KINDS[k])) s[KINDS[k]] = f.at(KINDS[k]);
          }
  };
  if (f.has("sections")) for (auto &sec : f["sections"].a) { const J copy = sec; fill(sec["segments"], &copy); }
  fill(f["segments"], nullptr);
  return r;
}
// (b) repeat the default segment list in a section entry for every coordinate that has none
static J explicit_sections(const J &root)
{
  J r = root;
  J &f = r["features"][0];
  J secs = f.has("sections") ? f.at("sections") : J::arr();
  for (size_t i = 0; i < f.at("coordinates").size(); ++i)
    {
      bool have = false;
      for (auto &s : secs.a) if (static_cast<size_t>(s.at("coordinate").num()) == i) have = true;
      if (have) continue;
      J s = J::obj();
      s["coordinate"] = static_cast<int>(i);
      s["segments"] = f.at("segments");
      secs.push(s);
    }
  f["sections"] = secs;
  return r;
}

static const PropList &all_props()
{
  static const PropList l = {{{1, 0, 0}}, {{2, 0, 0}}, {{2, 1, 0}}, {{2, 2, 0}}, {{3, 0, 2}}, {{5, 0, 0}}, {{4, 0, 0}}};
  return l;
}

static J gen_relayout(Chooser &ch)
{
  LineCase lc = gen_line(ch, 2);
  J c = J::obj();
  c["world"] = lc.root.dump();
  g::GW w; w.fr = lc.fr; w.root = lc.root; w.feats.push_back(lc.m);
  c["queries"] = g::gen_queries(ch, w, static_cast<int>(ch.range(10, 40)), 95);
  return c;
}

static Result check_relayout(const J &c)
{
  Result r;
  const J root = J::parse(c.at("world").str());
  auto A = make_world(c.at("world").str(), 1, "a");
  auto B = make_world(push_down(root).dump(), 1, "b");
  auto C = make_world(explicit_sections(root).dump(), 1, "c");
  const J &f = root.at("features")[0];
  bool overrides = f.has("sections"), inherited = false;
  for (int k = 0; k < 4; ++k) if (f.has(KINDS[k])) inherited = true;
  for (const auto &q : c.at("queries").a)
    {
      const std::vector<double> a = A->properties(p3(q.at("p")), q.at("depth").num(), all_props());
      const std::vector<double> b = B->properties(p3(q.at("p")), q.at("depth").num(), all_props());
      const std::vector<double> cc = C->properties(p3(q.at("p")), q.at("depth").num(), all_props());
      r.inner++;
      if (a.back() != -1 && overrides && inherited) { r.nontrivial = true; r.inner_nt++; }
      if (a.back() != -1) r.classes.push_back(f.at("model").str() + " inside");
      for (size_t i = 0; i < a.size(); ++i)
        {
          if (!close_rel(a[i], b[i], 1e-12, 1e-13))
            return Result::fail("push-down", f.at("model").str() + ": writing the inherited models into every segment changes value " + std::to_string(i) + " from " + fmt(a[i]) + " to " + fmt(b[i]) + "; query " + q.dump());
          if (!close_rel(a[i], cc[i], 1e-12, 1e-13))
            return Result::fail("explicit-default-sections", f.at("model").str() + ": repeating the default segments in a section entry for every coordinate changes value " + std::to_string(i) + " from " + fmt(a[i]) + " to " + fmt(cc[i]) + "; query " + q.dump());
        }
    }
  return r;
}

// ---------------------------------------------------------------- (c) locality of a section override, (d) convexity / own value at the coordinate
static J gen_sections(Chooser &ch)
{
  LineCase lc = gen_line(ch, 4);
  // uniform temperature per section so that interpolated values are recognisable
  J &f = lc.root["features"][0];
  const size_t nc = f.at("coordinates").size();
  J secs = J::arr();
  J temps = J::arr();
  const size_t nseg = f.at("segments").size();
  for (size_t i = 0; i < nc; ++i)
    {
      J s = J::obj();
      s["coordinate"] = static_cast<int>(i);
      // the sections differ in models only (same geometry), so membership does not change between them
      J segs = f.at("segments");
      for (auto &sg : segs.a) { sg.erase("temperature models"); sg.erase("top truncation"); } // the uniform model's default range starts at the slab top
      s["segments"] = segs;
      const double T = ch.lattice(300, 1800, 50);
      temps.push(J(T));
      J tm = J::obj(); tm["model"] = "uniform"; tm["temperature"] = T;
      s["temperature models"] = J::arr({tm});
      secs.push(s);
      (void)nseg;
    }
  f["sections"] = secs;
  J c = J::obj();
  c["world"] = lc.root.dump();
  c["temps"] = temps;
  c["changed"] = static_cast<int>(ch.index(nc));
  c["new_temp"] = ch.lattice(2000, 3000, 50);
  c["sph"] = lc.fr.sph; c["R"] = lc.fr.R; c["H"] = lc.fr.H; c["dm"] = lc.fr.depth_method;
  // points next to the trench: along segment k at fraction s, small offset towards the dip point, shallow depth
  J pts = J::arr();
  const int np = static_cast<int>(ch.range(10, 40));
  const double km = lc.fr.km();
  for (int i = 0; i < np; ++i)
    {
      const size_t k = ch.index(nc - 1);
      const auto &v0 = lc.m.coords[k], &v1 = lc.m.coords[k + 1];
      const double s = ch.chance(20) ? ch.pick<double>({0.0, 1.0}) : ch.real(0.05, 0.95);
      const double tx = v1[0] - v0[0], ty = v1[1] - v0[1], tn = std::sqrt(tx * tx + ty * ty);
      double nx = -ty / tn, ny = tx / tn;
      const double px = v0[0] + s * tx, py = v0[1] + s * ty;
      if ((lc.m.dip_point[0] - px) * nx + (lc.m.dip_point[1] - py) * ny < 0) { nx = -nx; ny = -ny; }
      // beside the trench; points of the "at a coordinate" class sit on the trench line itself, so that their foot is the coordinate
      const double off = (s == 0.0 || s == 1.0) ? 0.0 : ch.real(2, 30) * km;
      J p = g::make_query(lc.fr, px + off * nx, py + off * ny, ch.real(1e3, 25e3));
      p["k"] = static_cast<int>(k); p["s"] = s;
      pts.push(p);
    }
  c["points"] = pts;
  return c;
}

// largest bend of the trench polyline at an interior coordinate, in degrees (longitude-latitude plane)
static double max_trench_bend(const J &coords)
{
  double worst = 0;
  for (size_t i = 0; i + 2 < coords.size(); ++i)
    {
      const double ax = coords[i + 1][0].num() - coords[i][0].num(), ay = coords[i + 1][1].num() - coords[i][1].num();
      const double bx = coords[i + 2][0].num() - coords[i + 1][0].num(), by = coords[i + 2][1].num() - coords[i + 1][1].num();
      worst = std::max(worst, std::fabs(std::atan2(ax * by - ay * bx, ax * bx + ay * by)) / DEG);
    }
  return worst;
}

static Result check_sections(const J &c)
{
  Result r;
  const J root = J::parse(c.at("world").str());
  // "beside trench segment k" names the segment holding the foot only for gently bending trenches (stated assumption: 25 degrees plus
  // lattice rounding); a sharper corner - which the generator no longer produces - is outside what this sub-check can decide
  if (max_trench_bend(root.at("features")[0].at("coordinates")) > 32) { r.discard = true; r.msg = "trench bends by more than 32 degrees"; return r; }
  auto A = make_world(c.at("world").str(), 1, "a");
  const size_t changed = static_cast<size_t>(c.at("changed").num());
  J root2 = root;
  root2["features"][0]["sections"][changed]["temperature models"][0]["temperature"] = c.at("new_temp");
  auto B = make_world(root2.dump(), 1, "b");
  const std::vector<double> temps = c.at("temps").nums();
  const std::string type = root.at("features")[0].at("model").str();
  for (const auto &p : c.at("points").a)
    {
      const size_t k = static_cast<size_t>(p.at("k").num());
      const double s = p.at("s").num();
      const std::vector<double> a = A->properties(p3(p.at("p")), p.at("depth").num(), {{{1, 0, 0}}, {{4, 0, 0}}});
      const std::vector<double> b = B->properties(p3(p.at("p")), p.at("depth").num(), {{{1, 0, 0}}, {{4, 0, 0}}});
      r.inner++;
      if (a[1] == -1) { r.classes.push_back("outside(skipped)"); continue; }
      r.nontrivial = true; r.inner_nt++;
      // (d) convexity between the two adjacent sections. The point was generated beside segment k of the trench,
      // a gently bent curve: its foot lies on segment k-1, k or k+1; the value must be inside the hull of the
      // sections adjacent to those.
      const size_t lo = k == 0 ? 0 : k - 1, hi = std::min(temps.size() - 1, k + 2);
      double tmin = 1e300, tmax = -1e300;
      for (size_t i = lo; i <= hi; ++i) { tmin = std::min(tmin, temps[i]); tmax = std::max(tmax, temps[i]); }
      if (a[0] < tmin - 1e-6 || a[0] > tmax + 1e-6)
        return Result::fail("section-convexity", type + ": temperature " + fmt(a[0]) + " beside trench segment " + std::to_string(k) + " is outside the hull [" + fmt(tmin) + "," + fmt(tmax) + "] of the neighbouring sections' uniform temperatures " + c.at("temps").dump());
      // strictly between coordinates k and k+1 (away from the ends) the hull is that of sections k and k+1 only
      if (s > 0.2 && s < 0.8)
        {
          const double l2 = std::min(temps[k], temps[k + 1]), h2 = std::max(temps[k], temps[k + 1]);
          if (a[0] < l2 - 1e-6 || a[0] > h2 + 1e-6)
            return Result::fail("section-convexity", type + ": temperature " + fmt(a[0]) + " between coordinates " + std::to_string(k) + " and " + std::to_string(k + 1) + " (fraction " + fmt(s) + ") is not a convex combination of their sections' values " + fmt(temps[k]) + " and " + fmt(temps[k + 1]));
        }
      // a section's own value at its coordinate
      if (s == 0.0 || s == 1.0)
        {
          const size_t ci = s == 0.0 ? k : k + 1;
          r.classes.push_back("at a coordinate");
          if (std::fabs(a[0] - temps[ci]) > 2e-3 * (tmax - tmin) + 1e-6)
            return Result::fail("section-own-value", type + ": beside coordinate " + std::to_string(ci) + " the temperature is " + fmt(a[0]) + ", the section of that coordinate prescribes " + fmt(temps[ci]));
        }
      // (c) locality: overriding the section of coordinate `changed` may change answers only between its two neighbours
      const bool far = (k + 1 < changed && (changed - (k + 1)) >= 1 && s < 0.8) || (k > changed && (k - changed) >= 1 && s > 0.2);
      const bool far_strict = (k + 1 < changed) ? (k + 2 <= changed && (k + 2 < changed || s < 0.8)) : (k > changed ? (k >= changed + 1 && (k > changed + 1 || s > 0.2)) : false);
      (void)far;
      if (far_strict)
        {
          r.classes.push_back("far from the changed section");
          if (!close_rel(a[0], b[0], 1e-9) || a[1] != b[1])
            return Result::fail("section-locality", type + ": changing only the section of coordinate " + std::to_string(changed) + " changes the temperature beside trench segment " + std::to_string(k) + " (fraction " + fmt(s) + ") from " + fmt(a[0]) + " to " + fmt(b[0]));
        }
    }
  return r;
}

// ---------------------------------------------------------------- (d') geometric quantities: thickness / top truncation across two sections
// straight cartesian 2-coordinate trench, one segment of the same length and dips in both sections, but different
// thickness and top-truncation pairs: membership must use each section's own values beside its coordinate and a
// convex combination of the two in between.
static J gen_geometry(Chooser &ch)
{
  J c = J::obj();
  const bool fault = ch.chance(35);
  c["type"] = fault ? "fault" : "subducting plate";
  c["H"] = 2000e3;
  const double x0 = ch.lattice(-1500e3, 1500e3, 1e3), y0 = ch.lattice(-1500e3, 1500e3, 1e3);
  const double az = ch.real(-PI, PI), len = ch.real(400e3, 1500e3);
  c["p0"] = jp(x0, y0); c["p1"] = jp(x0 + len * std::cos(az), y0 + len * std::sin(az));
  c["side"] = ch.flip() ? 1 : -1;
  c["L"] = ch.lattice(150e3, 500e3, 10e3);
  const double a0 = ch.lattice(15, 75, 5);
  c["a0"] = a0; c["a1"] = ch.flip() ? a0 : ch.lattice(15, 75, 5);
  J secs = J::arr();
  for (int i = 0; i < 2; ++i)
    {
      J s = J::obj();
      s["t0"] = ch.lattice(30e3, 200e3, 10e3); s["t1"] = ch.chance(60) ? ch.lattice(30e3, 200e3, 10e3) : s["t0"].num();
      s["tt0"] = fault ? 0.0 : ch.lattice(-40e3, 20e3, 5e3); s["tt1"] = fault ? 0.0 : (ch.chance(60) ? ch.lattice(-40e3, 20e3, 5e3) : s["tt0"].num());
      secs.push(s);
    }
  c["sections"] = secs;
  c["layout"] = static_cast<int>(ch.range(0, 2)); // 0: section 0 = default segments, override coordinate 1; 1: the reverse; 2: both coordinates have a section entry
  J pts = J::arr();
  const int np = static_cast<int>(ch.range(10, 40));
  for (int i = 0; i < np; ++i)
    {
      J p = J::obj();
      p["s"] = ch.pick<double>({1e-6, 1 - 1e-6, 1e-6, 1 - 1e-6, 0.5, 0.3, 0.7}); // 1e-6: the interpolation weight is the curve parameter (cube root for 2-point trenches), 1% there
      if (ch.chance(20)) p["s"] = ch.real(0.05, 0.95);
      p["l"] = ch.real(0.03, 0.97);
      p["n"] = ch.real(-60e3, 230e3);
      pts.push(p);
    }
  c["points"] = pts;
  return c;
}

static Result check_geometry(const J &c)
{
  Result r;
  const bool fault = c.at("type").str() == "fault";
  const double H = c.at("H").num();
  const double x0 = c.at("p0")[0].num(), y0 = c.at("p0")[1].num(), x1 = c.at("p1")[0].num(), y1 = c.at("p1")[1].num();
  const double len = std::sqrt((x1 - x0) * (x1 - x0) + (y1 - y0) * (y1 - y0));
  const double tx = (x1 - x0) / len, ty = (y1 - y0) / len, side = c.at("side").num();
  const double nx = -ty * side, ny = tx * side;
  const double L = c.at("L").num();
  std::vector<ref::Seg> segs = {{L, c.at("a0").num() * DEG, c.at("a1").num() * DEG}};
  auto seg_json = [&](const J &s) {
    J js = J::obj();
    js["length"] = L; js["thickness"] = J::arr({s.at("t0"), s.at("t1")}); js["angle"] = J::arr({c.at("a0"), c.at("a1")});
    if (!fault) js["top truncation"] = J::arr({s.at("tt0"), s.at("tt1")});
    return J::arr({js});
  };
  J root = J::obj();
  root["version"] = "1.1";
  J feat = J::obj();
  feat["model"] = c.at("type").str(); feat["name"] = "line";
  feat["coordinates"] = J::arr({jp(x0, y0), jp(x1, y1)});
  feat["dip point"] = jp(0.5 * (x0 + x1) + nx * 5e7, 0.5 * (y0 + y1) + ny * 5e7);
  const int layout = static_cast<int>(c.at("layout").num());
  J sections = J::arr();
  auto sec = [&](int coord) { J s = J::obj(); s["coordinate"] = coord; s["segments"] = seg_json(c.at("sections")[static_cast<size_t>(coord)]); return s; };
  if (layout == 0) { feat["segments"] = seg_json(c.at("sections")[0]); sections.push(sec(1)); }
  else if (layout == 1) { feat["segments"] = seg_json(c.at("sections")[1]); sections.push(sec(0)); }
  else { feat["segments"] = seg_json(c.at("sections")[0]); sections.push(sec(0)); sections.push(sec(1)); }
  feat["sections"] = sections;
  root["features"] = J::arr({feat});
  auto W = make_world(root.dump());
  r.classes.push_back(fault ? "fault" : "slab");
  for (const auto &p : c.at("points").a)
    {
      double qx, qy;
      ref::planar_slab_point(segs, p.at("l").num() * L, p.at("n").num(), qx, qy);
      const double depth = -qy;
      if (depth < 0 || depth > H) continue;
      const double s = p.at("s").num() * len;
      const double X = x0 + s * tx + qx * nx, Y = y0 + s * ty + qx * ny;
      const ref::PlaneDist d = ref::planar_slab(segs, qx, qy);
      if (d.segment < 0 || d.margin < 1.0) continue;
      const double f = p.at("s").num(), g = d.frac;
      auto own = [&](size_t i, const char *k0, const char *k1) { const J &sc = c.at("sections")[i]; return sc.at(k0).num() + g * (sc.at(k1).num() - sc.at(k0).num()); };
      const double th0 = own(0, "t0", "t1"), th1 = own(1, "t0", "t1"), tr0 = own(0, "tt0", "tt1"), tr1 = own(1, "tt0", "tt1");
      const double tag = W->properties({{X, Y, H - depth}}, depth, {{{4, 0, 0}}})[0];
      const bool inside = tag != -1;
      r.inner++; r.nontrivial = true; r.inner_nt++;
      // bounds that every convex combination of the two sections' own values satisfies
      double th_lo = std::min(th0, th1), th_hi = std::max(th0, th1), tr_lo = std::min(tr0, tr1), tr_hi = std::max(tr0, tr1);
      const bool near0 = f <= 1.1e-6, near1 = f >= 1 - 1.1e-6;
      if (near0 || near1)
        {
          // beside a coordinate the section's own value applies (the weight of the other section is ~1% there)
          const double tho = near0 ? th0 : th1, tro = near0 ? tr0 : tr1;
          const double bt = 0.03 * std::fabs(th1 - th0) + 1.0, br = 0.03 * std::fabs(tr1 - tr0) + 1.0;
          th_lo = tho - bt; th_hi = tho + bt; tr_lo = tro - br; tr_hi = tro + br;
          r.classes.push_back("beside a coordinate");
        }
      const double up = fault ? 0.5 : 1.0;
      const double lo_sure_in = fault ? -0.5 * th_lo : tr_hi, hi_sure_in = up * th_lo;   // inside whatever the combination
      const double lo_sure_out = fault ? -0.5 * th_hi : tr_lo, hi_sure_out = up * th_hi; // outside whatever the combination
      const double eps = 1.0;
      if (d.from > lo_sure_in + eps && d.from < hi_sure_in - eps && !inside && (fault || th_lo >= tr_hi))
        return Result::fail(near0 || near1 ? "section-own-geometry" : "section-geometry-convexity", c.at("type").str() + ": a point at distance " + fmt(d.from) + " from the surface (segment fraction " + fmt(g) + ", trench fraction " + fmt(f) + ") is reported outside although every combination of the adjacent sections' thickness [" + fmt(th_lo) + "," + fmt(th_hi) + "] and top truncation [" + fmt(tr_lo) + "," + fmt(tr_hi) + "] contains it; sections " + c.at("sections").dump());
      if ((d.from < lo_sure_out - eps || d.from > hi_sure_out + eps) && inside)
        return Result::fail(near0 || near1 ? "section-own-geometry" : "section-geometry-convexity", c.at("type").str() + ": a point at distance " + fmt(d.from) + " from the surface (segment fraction " + fmt(g) + ", trench fraction " + fmt(f) + ") is reported inside although no combination of the adjacent sections' thickness [" + fmt(th_lo) + "," + fmt(th_hi) + "] and top truncation [" + fmt(tr_lo) + "," + fmt(tr_hi) + "] contains it; sections " + c.at("sections").dump());
    }
  return r;
}

// ---------------------------------------------------------------- (d'') segment lengths across two sections
// straight cartesian 2-coordinate trench, 1..3 straight segments of one common dip and one common thickness (the slab is a plane
// whatever the lengths are), each segment with its own uniform temperature (the same in both sections). The two sections give the
// segments different lengths, zero included. A segment's length between the coordinates is a convex combination of the two
// sections' lengths and the section's own length beside its coordinate, so that (i) the slab ends where the interpolated total length
// ends and (ii) the temperature of a point tells which segment it is in: both are decided wherever every admissible combination agrees.
static J gen_lengths(Chooser &ch)
{
  J c = J::obj();
  const bool fault = ch.chance(35);
  c["type"] = fault ? "fault" : "subducting plate";
  c["H"] = 2500e3;
  const double x0 = ch.lattice(-1500e3, 1500e3, 1e3), y0 = ch.lattice(-1500e3, 1500e3, 1e3);
  const double az = ch.real(-PI, PI), len = ch.real(400e3, 1500e3);
  c["p0"] = jp(x0, y0); c["p1"] = jp(x0 + len * std::cos(az), y0 + len * std::sin(az));
  c["side"] = ch.flip() ? 1 : -1;
  c["dip"] = ch.lattice(20, 80, 5);
  c["thickness"] = ch.lattice(40e3, 150e3, 10e3);
  const int ns = static_cast<int>(ch.range(1, 3));
  J temps = J::arr();
  for (int j = 0; j < ns; ++j) temps.push(J(400.0 + 300.0 * j + ch.lattice(0, 200, 25)));
  c["temps"] = temps;
  J secs = J::arr();
  for (int i = 0; i < 2; ++i)
    {
      J ls = J::arr();
      for (int j = 0; j < ns; ++j) ls.push(J(ch.chance(22) ? 0.0 : ch.lattice(50e3, 400e3, 10e3)));
      bool all_zero = true;
      for (auto &l : ls.a) if (l.num() != 0) all_zero = false;
      if (all_zero) ls[0] = J(ch.lattice(50e3, 400e3, 10e3));
      secs.push(ls);
    }
  c["lengths"] = secs;
  c["layout"] = static_cast<int>(ch.range(0, 2));
  J pts = J::arr();
  const int np = static_cast<int>(ch.range(12, 40));
  for (int i = 0; i < np; ++i)
    {
      J p = J::obj();
      p["s"] = ch.pick<double>({1e-6, 1 - 1e-6, 1e-6, 1 - 1e-6, 0.5, 0.2, 0.8});
      if (ch.chance(20)) p["s"] = ch.real(0.05, 0.95);
      p["l"] = ch.real(0.0, 1.1); // of the longer of the two total lengths
      p["n"] = ch.real(0.1, 0.9); // of the thickness (fault: of the half thickness, either side)
      p["neg"] = ch.flip();
      pts.push(p);
    }
  c["points"] = pts;
  return c;
}

static Result check_lengths(const J &c)
{
  Result r;
  const bool fault = c.at("type").str() == "fault";
  const double H = c.at("H").num();
  const double x0 = c.at("p0")[0].num(), y0 = c.at("p0")[1].num(), x1 = c.at("p1")[0].num(), y1 = c.at("p1")[1].num();
  const double len = std::sqrt((x1 - x0) * (x1 - x0) + (y1 - y0) * (y1 - y0));
  const double tx = (x1 - x0) / len, ty = (y1 - y0) / len, side = c.at("side").num();
  const double nx = -ty * side, ny = tx * side;
  const double dip = c.at("dip").num() * DEG, thick = c.at("thickness").num();
  const size_t ns = c.at("temps").size();
  auto seg_json = [&](const J &ls) {
    J a = J::arr();
    for (size_t j = 0; j < ns; ++j)
      {
        J js = J::obj();
        js["length"] = ls[j]; js["thickness"] = J::arr({J(thick)}); js["angle"] = J::arr({c.at("dip")});
        J tm = J::obj(); tm["model"] = "uniform"; tm["temperature"] = c.at("temps")[j];
        js["temperature models"] = J::arr({tm});
        a.push(js);
      }
    return a;
  };
  J root = J::obj();
  root["version"] = "1.1";
  J feat = J::obj();
  feat["model"] = c.at("type").str(); feat["name"] = "line";
  feat["coordinates"] = J::arr({jp(x0, y0), jp(x1, y1)});
  feat["dip point"] = jp(0.5 * (x0 + x1) + nx * 5e7, 0.5 * (y0 + y1) + ny * 5e7);
  const int layout = static_cast<int>(c.at("layout").num());
  J sections = J::arr();
  auto sec = [&](int coord) { J s = J::obj(); s["coordinate"] = coord; s["segments"] = seg_json(c.at("lengths")[static_cast<size_t>(coord)]); return s; };
  if (layout == 0) { feat["segments"] = seg_json(c.at("lengths")[0]); sections.push(sec(1)); }
  else if (layout == 1) { feat["segments"] = seg_json(c.at("lengths")[1]); sections.push(sec(0)); }
  else { feat["segments"] = seg_json(c.at("lengths")[0]); sections.push(sec(0)); sections.push(sec(1)); }
  feat["sections"] = sections;
  root["features"] = J::arr({feat});
  auto W = make_world(root.dump());
  r.classes.push_back(fault ? "fault" : "slab");
  // cumulative lengths per section
  std::vector<std::array<double, 2>> cum(ns + 1, {{0.0, 0.0}});
  bool zero_one_side = false;
  for (size_t j = 0; j < ns; ++j)
    for (size_t i = 0; i < 2; ++i)
      {
        cum[j + 1][i] = cum[j][i] + c.at("lengths")[i][j].num();
        if ((c.at("lengths")[i][j].num() == 0) != (c.at("lengths")[1 - i][j].num() == 0)) zero_one_side = true;
      }
  if (zero_one_side) r.classes.push_back("a segment of length zero in one section only");
  const double longest = std::max(cum[ns][0], cum[ns][1]);
  for (const auto &p : c.at("points").a)
    {
      const double along = p.at("l").num() * longest;
      double from = p.at("n").num() * thick * (fault ? 0.5 : 1.0);
      if (fault && p.at("neg").boolean()) from = -from;
      // the plane: along the surface by `along`, `from` it on the lower side
      const double qx = along * std::cos(dip) - from * std::sin(dip), depth = along * std::sin(dip) + from * std::cos(dip);
      if (depth < 0 || depth > H) continue;
      const double f = p.at("s").num(), s = f * len;
      const double X = x0 + s * tx + qx * nx, Y = y0 + s * ty + qx * ny;
      const std::vector<double> out = W->properties({{X, Y, H - depth}}, depth, {{{1, 0, 0}}, {{4, 0, 0}}});
      const bool inside = out[1] != -1;
      r.inner++; r.nontrivial = true; r.inner_nt++;
      const bool near0 = f <= 1.1e-6, near1 = f >= 1 - 1.1e-6;
      // admissible range of every cumulative length at this place
      auto range = [&](size_t j, double &lo, double &hi) {
        lo = std::min(cum[j][0], cum[j][1]); hi = std::max(cum[j][0], cum[j][1]);
        if (near0 || near1) { const double own = cum[j][near0 ? 0 : 1], b = 0.03 * (hi - lo) + 1.0; lo = own - b; hi = own + b; }
        else { lo -= 1.0; hi += 1.0; }
      };
      if (near0 || near1) r.classes.push_back("beside a coordinate");
      double tlo, thi;
      range(ns, tlo, thi);
      const std::string where = " (trench fraction " + fmt(f) + ", along the surface " + fmt(along) + ", from it " + fmt(from) + "); segment lengths of the two sections " + c.at("lengths").dump();
      if (along < tlo && !inside)
        return Result::fail(near0 || near1 ? "section-own-length" : "section-length-convexity", c.at("type").str() + ": a point is reported outside although every combination of the adjacent sections' total lengths [" + fmt(tlo) + "," + fmt(thi) + "] reaches it" + where);
      if (along > thi && inside)
        return Result::fail(near0 || near1 ? "section-own-length" : "section-length-convexity", c.at("type").str() + ": a point is reported inside although no combination of the adjacent sections' total lengths [" + fmt(tlo) + "," + fmt(thi) + "] reaches it" + where);
      if (!inside) continue;
      // which segment: the one whose admissible start lies before and whose admissible end lies behind the point
      for (size_t j = 0; j < ns; ++j)
        {
          double alo, ahi, blo, bhi;
          range(j, alo, ahi); range(j + 1, blo, bhi);
          if (j == 0) ahi = -1;
          if (along > ahi && along < blo)
            {
              r.classes.push_back("segment identified by its temperature");
              if (!close_rel(out[0], c.at("temps")[j].num(), 1e-9))
                return Result::fail(near0 || near1 ? "section-own-length" : "section-length-convexity", c.at("type").str() + ": the temperature " + fmt(out[0]) + " is not that of segment " + std::to_string(j) + " (" + fmt(c.at("temps")[j].num()) + "), in which the point lies for every combination of the adjacent sections' lengths" + where);
            }
        }
    }
  return r;
}

// ---------------------------------------------------------------- (c') locality with sections that differ in geometry and non-uniform models
// every coordinate has its own section (own lengths, thickness, dips); the feature carries distance-dependent temperature models
// (slab: mass conserving / plate model / linear / adiabatic, fault: linear / adiabatic). Replacing the section of one coordinate by
// another one may change answers only between that coordinate's two neighbours: beside the other trench segments every property
// must stay bit-identical, whatever the models read from the sections (lengths, total length, thickness, angles).
static J gen_locality(Chooser &ch)
{
  LineCase lc = gen_line(ch, 4);
  J &f = lc.root["features"][0];
  const std::string type = f.at("model").str();
  const size_t nc = f.at("coordinates").size(), nseg = f.at("segments").size();
  for (int k = 0; k < 4; ++k) f.erase(KINDS[k]);
  for (auto &sg : f["segments"].a) { for (int k = 0; k < 4; ++k) sg.erase(KINDS[k]); sg.erase("top truncation"); }
  g::Opt o; o.cooling_models = true; o.operations = false;
  J tms = J::arr();
  // half of the slabs carry the mass conserving model: the only one that reads the (section-interpolated) total slab length
  const bool want_mc = type == "subducting plate" && ch.flip();
  for (int t = 0; t < 40; ++t)
    {
      tms = g::gen_temperature_models(ch, lc.fr, o, lc.m);
      bool has_mc = false;
      for (const auto &tm : tms.a) if (tm.at("model").str() == "mass conserving") has_mc = true;
      if (tms.size() > 0 && (!want_mc || has_mc)) break;
    }
  if (tms.size() == 0) { J tm = J::obj(); tm["model"] = "adiabatic"; tms.push(tm); }
  f["temperature models"] = tms;
  f["composition models"] = J::arr({uniform_model(ch, 1, type)});
  auto plain_segments = [&]() {
    J segs = gen_segments(ch, type, static_cast<int>(nseg), 0);
    for (auto &sg : segs.a) sg.erase("top truncation");
    return segs;
  };
  J secs = J::arr();
  for (size_t i = 0; i < nc; ++i)
    {
      J sct = J::obj();
      sct["coordinate"] = static_cast<int>(i);
      sct["segments"] = plain_segments();
      secs.push(sct);
    }
  f["sections"] = secs;
  J c = J::obj();
  c["world"] = lc.root.dump();
  c["changed"] = static_cast<int>(ch.index(nc));
  c["new_segments"] = plain_segments();
  // half of the replacements are much longer (or shorter) than anything else on the trench: a feature-wide extreme changes
  if (ch.flip()) { const double f = ch.flip() ? ch.real(1.6, 2.5) : ch.real(0.3, 0.6); for (auto &sg : c["new_segments"].a) sg["length"] = std::round(sg.at("length").num() * f / 1e3) * 1e3; }
  J pts = J::arr();
  const int np = static_cast<int>(ch.range(15, 50));
  const double km = lc.fr.km();
  for (int i = 0; i < np; ++i)
    {
      const size_t k = ch.index(nc - 1);
      const auto &v0 = lc.m.coords[k], &v1 = lc.m.coords[k + 1];
      const double sf = ch.real(0.25, 0.75);
      const double tx = v1[0] - v0[0], ty = v1[1] - v0[1], tn = std::sqrt(tx * tx + ty * ty);
      double nx = -ty / tn, ny = tx / tn;
      const double px = v0[0] + sf * tx, py = v0[1] + sf * ty;
      if ((lc.m.dip_point[0] - px) * nx + (lc.m.dip_point[1] - py) * ny < 0) { nx = -nx; ny = -ny; }
      // anywhere down the slab: horizontal offset and depth of the same order, so that the deep (tip) part is reached too
      const double off = ch.real(2, 500) * km;
      J pq = g::make_query(lc.fr, px + off * nx, py + off * ny, ch.chance(30) ? ch.real(1e3, 30e3) : ch.real(0.2, 1.2) * off / km * 1e3);
      pq["k"] = static_cast<int>(k); pq["s"] = sf;
      pts.push(pq);
    }
  c["points"] = pts;
  return c;
}

static Result check_locality(const J &c)
{
  Result r;
  const J root = J::parse(c.at("world").str());
  auto A = make_world(c.at("world").str(), 1, "a");
  const size_t changed = static_cast<size_t>(c.at("changed").num());
  J root2 = root;
  root2["features"][0]["sections"][changed]["segments"] = c.at("new_segments");
  auto B = make_world(root2.dump(), 1, "b");
  const std::string type = root.at("features")[0].at("model").str();
  for (const auto &tm : root.at("features")[0].at("temperature models").a) r.classes.push_back(type + " / " + tm.at("model").str());
  for (const auto &p : c.at("points").a)
    {
      const size_t k = static_cast<size_t>(p.at("k").num());
      // beside trench segment k (between coordinates k and k+1, middle half): the adjacent sections are k and k+1; allowing for the
      // bends of the trench the foot may lie one segment further, so `changed` has to be at least two coordinates away
      bool far = (changed + 2 <= k) || (k + 3 <= changed);
      // ... and the same for every other trench segment that is about as close to the point as the nearest one: far down a slab,
      // on the inner side of a bend, the closest trench point can lie several segments away from the one the point was generated beside
      {
        const J &co = root.at("features")[0].at("coordinates");
        const double px = p.at("nat")[0].num(), py = p.at("nat")[1].num();
        const bool sphw = root.at("coordinate system").at("model").str() == "spherical";
        const double cl = sphw ? std::cos(py * DEG) : 1.0;
        std::vector<double> dist(co.size() - 1);
        double dmin = HUGE_VAL;
        for (size_t j = 0; j + 1 < co.size(); ++j)
          {
            const double ax = (co[j][0].num() - px) * cl, ay = co[j][1].num() - py, bx = (co[j + 1][0].num() - px) * cl, by = co[j + 1][1].num() - py;
            const double ex = bx - ax, ey = by - ay, t = std::max(0.0, std::min(1.0, -(ax * ex + ay * ey) / (ex * ex + ey * ey)));
            dist[j] = std::hypot(ax + t * ex, ay + t * ey);
            dmin = std::min(dmin, dist[j]);
          }
        for (size_t j = 0; j + 1 < co.size(); ++j)
          if (dist[j] <= 1.25 * dmin + (sphw ? 0.3 : 30e3) && !((changed + 2 <= j) || (j + 3 <= changed))) far = false;
      }
      if (!far) continue;
      const std::vector<double> a = A->properties(p3(p.at("p")), p.at("depth").num(), all_props());
      const std::vector<double> b = B->properties(p3(p.at("p")), p.at("depth").num(), all_props());
      r.inner++;
      if (a.back() == -1 && b.back() == -1) { r.classes.push_back("outside(skipped)"); continue; }
      r.nontrivial = true; r.inner_nt++;
      for (size_t i = 0; i < a.size(); ++i)
        if (!same_bits(a[i], b[i]))
          return Result::fail("section-locality-geometry", type + ": replacing only the section of coordinate " + std::to_string(changed) + " changes value " + std::to_string(i) + " beside trench segment " + std::to_string(k) + " (fraction " + fmt(p.at("s").num()) + ") from " + fmt(a[i]) + " to " + fmt(b[i]) + "; query " + p.dump());
    }
  return r;
}

int main(int argc, char **argv)
{
  return run_main("C10", argc, argv,
  {
    {"relayout", "slab or fault with 2..5 coordinates (bends <= 25 deg), 1..3 segments, uniform temperature/composition/grains/velocity models placed at feature, section and segment level in random combinations, sections for a random subset of coordinates with their own geometry; (a) writing the inherited models into every segment and (b) repeating the default segments in a section entry for every coordinate must not change any answer. Non-trivial: inside the feature, >=1 section override and >=1 inherited kind", 80, gen_relayout, check_relayout, 100, true, true},
    {"sections", "4..5 coordinates, every coordinate with a section carrying its own uniform temperature (same geometry); points beside the trench: value inside the hull of the adjacent sections, a section's own value beside its coordinate, and changing one section's value leaves points beyond its neighbours unchanged", 80, gen_sections, check_sections, 100, true, true},
    {"section_lengths", "straight cartesian trench with two coordinates, 1..3 straight segments of one dip and thickness, each with its own uniform temperature, whose lengths differ between the two sections (22% of the lengths are zero); points in slab coordinates beside each coordinate and in between: the slab ends within the hull of the two total lengths (beside a coordinate: at the section's own), and a point lying in segment j for every admissible combination has segment j's temperature", 120, gen_lengths, check_lengths, 100, true, true},
    {"section_geometry", "straight cartesian trench with two coordinates whose sections differ in thickness and top-truncation pairs (written as default+override, override+default, or two overrides); 10..40 points generated in slab coordinates beside each coordinate (1e-6 of the trench length in) and in between: membership must follow the section's own thickness/top truncation beside its coordinate and lie within the hull of the two sections in between", 120, gen_geometry, check_geometry, 100, true, true},
    {"section_locality", "4..5 coordinates, each with a section of its own geometry (lengths, thickness, dips), feature-level distance-dependent temperature models (slab: mass conserving / plate model / linear / adiabatic / uniform; fault: linear / adiabatic / uniform); replacing the section of one coordinate by another one must leave every property bit-identical beside trench segments at least two coordinates away. Non-trivial: point inside the feature in one of the two worlds", 80, gen_locality, check_locality, 100, true, true},
  });
}
