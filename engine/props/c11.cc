// C11 — depth surfaces given at points are honoured, affine-exact and bounded.
#include "../gen.h"

#include "world_builder/objects/surface.h"

using namespace vf;
namespace WB = WorldBuilder;

// ---------------------------------------------------------------- Objects::Surface used directly
static J gen_surface(Chooser &ch)
{
  J c = J::obj();
  const int n = static_cast<int>(ch.range(3, 40));
  const int coords = static_cast<int>(ch.range(0, 2)); // 0: round metres (1 km lattice), 1: arbitrary metres, 2: radians
  c["coords"] = coords;
  const bool affine = ch.chance(40);
  c["affine"] = affine;
  const double cx = coords == 2 ? ch.real(-2.5, 2.5) : ch.real(-1e6, 1e6), cy = coords == 2 ? ch.real(-1.2, 1.2) : ch.real(-1e6, 1e6);
  const double ext = coords == 2 ? 0.2 : 4e5;
  const double a0 = ch.real(50e3, 150e3), ax = ch.real(-0.1, 0.1) * 1e5 / ext, ay = ch.real(-0.1, 0.1) * 1e5 / ext;
  c["a0"] = a0; c["ax"] = ax; c["ay"] = ay; c["cx"] = cx; c["cy"] = cy;
  J nodes = J::arr();
  for (int i = 0; i < n; ++i)
    {
      double x = cx + ch.real(-ext, ext), y = cy + ch.real(-ext, ext);
      if (coords == 0) { x = std::round(x / 1e3) * 1e3; y = std::round(y / 1e3) * 1e3; }
      const double v = affine ? a0 + ax * (x - cx) + ay * (y - cy) : ch.lattice(10e3, 200e3, 1e3);
      nodes.push(jp(x, y, v));
    }
  c["nodes"] = nodes;
  J qs = J::arr();
  const int nq = static_cast<int>(ch.range(5, 30));
  for (int i = 0; i < nq; ++i)
    {
      const J &a = nodes[ch.index(nodes.size())], &b = nodes[ch.index(nodes.size())], &d = nodes[ch.index(nodes.size())];
      double u = ch.real(0, 1), v = ch.real(0, 1);
      if (u + v > 1) { u = 1 - u; v = 1 - v; }
      qs.push(jp(a[0].num() + u * (b[0].num() - a[0].num()) + v * (d[0].num() - a[0].num()), a[1].num() + u * (b[1].num() - a[1].num()) + v * (d[1].num() - a[1].num())));
    }
  c["queries"] = qs;
  return c;
}

static Result check_surface(const J &c)
{
  Result r;
  std::pair<std::vector<double>, std::vector<double>> vp;
  std::set<std::pair<double, double>> seen;
  std::vector<std::array<double, 3>> nodes;
  for (const auto &n : c.at("nodes").a)
    {
      if (!seen.insert({n[0].num(), n[1].num()}).second) continue;
      vp.first.push_back(n[2].num()); vp.second.push_back(n[0].num()); vp.second.push_back(n[1].num());
      nodes.push_back({{n[0].num(), n[1].num(), n[2].num()}});
    }
  if (nodes.size() < 3) { r.discard = true; return r; }
  bool nondegenerate = false;
  for (size_t i = 2; i < nodes.size() && !nondegenerate; ++i)
    if (std::fabs((nodes[1][0] - nodes[0][0]) * (nodes[i][1] - nodes[0][1]) - (nodes[1][1] - nodes[0][1]) * (nodes[i][0] - nodes[0][0])) > 1e-9 * (std::fabs(nodes[1][0] - nodes[0][0]) + std::fabs(nodes[1][1] - nodes[0][1])) * (std::fabs(nodes[i][0] - nodes[0][0]) + std::fabs(nodes[i][1] - nodes[0][1]))) nondegenerate = true;
  if (!nondegenerate) { r.discard = true; return r; }
  const int coords = static_cast<int>(c.at("coords").num());
  const WB::CoordinateSystem cs = coords == 2 ? WB::spherical : WB::cartesian;
  WB::Objects::Surface S(vp);
  double vmin = 1e300, vmax = -1e300;
  for (auto &n : nodes) { vmin = std::min(vmin, n[2]); vmax = std::max(vmax, n[2]); }
  const bool affine = c.at("affine").boolean();
  r.classes.push_back(coords == 0 ? "round coordinates" : (coords == 1 ? "arbitrary metres" : "radians"));
  r.nontrivial = true;
  // (a) the value at a listed point is the listed value
  for (auto &n : nodes)
    {
      r.inner++; r.inner_nt++;
      double got;
      try { got = S.local_value(WB::Point<2>(n[0], n[1], cs)).interpolated_value; }
      catch (const std::exception &e)
        {
          return Result::fail("nodal-query-rejected", "a query exactly at the listed point (" + fmt(n[0]) + "," + fmt(n[1]) + ") is rejected by every triangle: " + std::string(e.what()).substr(0, 160));
        }
      if (!close_rel(got, n[2], 1e-9, 1e-9 * (vmax - vmin + 1)))
        return Result::fail("nodal-value", "value at the listed point (" + fmt(n[0]) + "," + fmt(n[1]) + ") is " + fmt(got) + ", listed " + fmt(n[2]));
    }
  // (c) bounds and (d) affine reproduction inside the hull
  for (const auto &q : c.at("queries").a)
    {
      r.inner++; r.inner_nt++;
      double got;
      try { got = S.local_value(WB::Point<2>(q[0].num(), q[1].num(), cs)).interpolated_value; }
      catch (const std::exception &e) { return Result::fail("hull-query-rejected", "a point inside the hull of the listed points is rejected: " + std::string(e.what()).substr(0, 160) + " " + q.dump()); }
      const double tol = 1e-9 * (std::fabs(vmax) + std::fabs(vmin) + 1);
      if (got < vmin - tol || got > vmax + tol)
        return Result::fail("surface-out-of-bounds", "interpolated value " + fmt(got) + " outside the nodal range [" + fmt(vmin) + "," + fmt(vmax) + "] at " + q.dump());
      if (affine)
        {
          const double want = c.at("a0").num() + c.at("ax").num() * (q[0].num() - c.at("cx").num()) + c.at("ay").num() * (q[1].num() - c.at("cy").num());
          if (!close_rel(got, want, 1e-9, 1e-6))
            return Result::fail("surface-not-affine-exact", "nodal values sample one affine function, interpolated value " + fmt(got) + " differs from it (" + fmt(want) + ") at " + q.dump());
        }
    }
  return r;
}

// ---------------------------------------------------------------- world level: bisection on depth locates the surface actually used
static J gen_world_surface(Chooser &ch)
{
  J c = J::obj();
  g::Opt o;
  g::Frame fr = g::gen_frame(ch, o);
  c["sph"] = fr.sph; c["R"] = fr.R; c["H"] = fr.H; c["dm"] = fr.depth_method;
  // polygons around the origin in a share of the cases: corners with a zero coordinate are the listed finding's trigger
  std::array<double, 2> ctr = g::gen_centre(ch, fr);
  const bool near_zero = ch.chance(25);
  if (near_zero) ctr = {{0.0, 0.0}};
  std::vector<std::array<double, 2>> poly = g::star_polygon(ch, fr, ctr, fr.sph ? 4.0 : 300e3, fr.sph ? 12.0 : 900e3, static_cast<int>(ch.range(3, 7)));
  if (near_zero && ch.flip() && poly[0][1] != 0) poly[0] = {{0.0, poly[0][1]}}; // (a vertex level with the centre would land on the centre itself)
  c["polygon"] = g::coords_json(poly);
  c["type"] = ch.pick<std::string>({"continental plate", "oceanic plate", "mantle layer"});
  c["which"] = ch.flip() ? "max depth" : "min depth";
  const bool affine = ch.chance(45);
  c["affine"] = affine;
  // the corners' default: the bare '[value]' entry, or - for min depth - sometimes no bare entry at all (documented default 0)
  const bool bare = !(c["which"].str() == "min depth" && !affine && ch.chance(40));
  c["bare"] = bare;
  const double base = bare ? ch.lattice(60e3, 200e3, 10e3) : 0.0;
  c["base"] = base;
  const double scale = fr.sph ? 10.0 : 800e3;
  const double ax = ch.real(-20e3, 20e3) / scale, ay = ch.real(-20e3, 20e3) / scale;
  c["ax"] = ax; c["ay"] = ay; c["cx"] = ctr[0]; c["cy"] = ctr[1];
  auto f = [&](double x, double y) { return base + ax * (x - ctr[0]) + ay * (y - ctr[1]); };
  // listed points: interior (star construction), on edges, on corners
  J listed = J::arr();
  const int n_int = static_cast<int>(ch.range(0, 10));
  for (int i = 0; i < n_int; ++i)
    {
      const size_t e = ch.index(poly.size());
      const auto &v0 = poly[e], &v1 = poly[(e + 1) % poly.size()];
      const double s = ch.real(0.05, 0.95), t = ch.chance(3) ? 1.0 : ch.real(0.1, 0.9); // t = 1: a value point on the polygon's edge (listed finding, kept rare)
      double x = ctr[0] + t * (v0[0] + s * (v1[0] - v0[0]) - ctr[0]), y = ctr[1] + t * (v0[1] + s * (v1[1] - v0[1]) - ctr[1]);
      if (ch.chance(60)) { const double st = fr.unit(); x = std::round(x / st) * st; y = std::round(y / st) * st; }
      listed.push(jp(x, y, affine ? f(x, y) : ch.lattice(30e3, 250e3, 5e3)));
    }
  // corners: in the affine case every corner must be listed (the default is not a sample of the function)
  J corner_listed = J::arr();
  for (size_t i = 0; i < poly.size(); ++i)
    {
      const bool l = affine || ch.chance(35);
      corner_listed.push(J(l));
      if (l) listed.push(jp(poly[i][0], poly[i][1], affine ? f(poly[i][0], poly[i][1]) : ch.lattice(30e3, 250e3, 5e3)));
    }
  c["corner_listed"] = corner_listed;
  c["listed"] = listed;
  // where the bare '[value]' entry stands in the list: first (as in every example), or after some / all of the interior points.
  // It is kept in front of the listed corners, so that "the corners' default" and "a listed corner replaces it" do not depend on
  // an order the documentation does not define.
  c["bare_pos"] = ch.chance(50) ? 0 : static_cast<int>(ch.range(0, n_int));
  // probes inside the polygon
  J probes = J::arr();
  const int np = static_cast<int>(ch.range(4, 16));
  for (int i = 0; i < np; ++i)
    {
      const size_t e = ch.index(poly.size());
      const auto &v0 = poly[e], &v1 = poly[(e + 1) % poly.size()];
      const double s = ch.real(0, 1), t = ch.real(0, 0.97);
      probes.push(jp(ctr[0] + t * (v0[0] + s * (v1[0] - v0[0]) - ctr[0]), ctr[1] + t * (v0[1] + s * (v1[1] - v0[1]) - ctr[1])));
    }
  c["probes"] = probes;
  return c;
}

// depth at which the indicator flips, located by bisection; returns NaN if the bracket does not straddle
static double locate(const WB::World &W, const g::Frame &fr, double a, double b, double lo, double hi, bool inside_at_lo)
{
  auto ind = [&](double d) { const J q = g::make_query(fr, a, b, d); return W.properties(p3(q.at("p")), d, {{{4, 0, 0}}})[0] != -1; };
  if (ind(lo) != inside_at_lo || ind(hi) == inside_at_lo) return std::nan("");
  for (int i = 0; i < 60; ++i)
    {
      const double mid = 0.5 * (lo + hi);
      if (ind(mid) == inside_at_lo) lo = mid; else hi = mid;
    }
  return 0.5 * (lo + hi);
}

static Result check_world_surface(const J &c)
{
  Result r;
  g::Frame fr;
  fr.sph = c.at("sph").boolean(); fr.R = c.at("R").num(); fr.H = c.at("H").num(); fr.depth_method = c.at("dm").str();
  const std::string which = c.at("which").str();
  const bool is_max = which == "max depth";
  const double base = c.at("base").num();
  J root = J::obj();
  g::frame_to_json(fr, root);
  J feat = J::obj();
  feat["model"] = c.at("type").str(); feat["name"] = "f";
  feat["coordinates"] = c.at("polygon");
  J surf = J::arr();
  const bool has_bare = c.get("bare", J(true)).boolean();
  const size_t bare_pos = c.has("bare_pos") ? static_cast<size_t>(c.at("bare_pos").num()) : 0;
  std::vector<std::array<double, 3>> nodes;
  bool zero_corner_listed = false;
  size_t li = 0;
  for (const auto &l : c.at("listed").a)
    {
      if (has_bare && li++ == bare_pos) surf.push(J::arr({J(base)})); // the value of every corner that is not listed
      surf.push(J::arr({l[2], J::arr({jp(l[0].num(), l[1].num())})}));
      // a point listed twice: the later entry replaces the earlier one
      bool dup = false;
      for (auto &n : nodes) if (n[0] == l[0].num() && n[1] == l[1].num()) { n[2] = l[2].num(); dup = true; }
      // the same place listed twice with a coordinate equal to zero: the parser's "same point?" test (Utilities::approx) is false for
      // 0 == 0, so the second entry does not replace the first - the code path of the listed finding 'zero-coordinate-corner'
      if (dup && (l[0].num() == 0 || l[1].num() == 0)) zero_corner_listed = true;
      if (!dup) nodes.push_back({{l[0].num(), l[1].num(), l[2].num()}});
    }
  for (size_t i = 0; i < c.at("polygon").size(); ++i)
    {
      const J &p = c.at("polygon")[i];
      // listed as a corner, or hit by one of the other listed points (lattice rounding can put one exactly on a corner)
      bool listed_here = c.at("corner_listed")[i].boolean();
      for (auto &n : nodes) if (n[0] == p[0].num() && n[1] == p[1].num()) listed_here = true;
      // a bare entry written after a listed point that sits on a corner: which of the two the corner keeps is an order question the
      // documentation does not answer - not asserted
      if (listed_here && !c.at("corner_listed")[i].boolean() && has_bare && bare_pos > 0) { r.discard = true; return r; }
      if (listed_here) { if (p[0].num() == 0 || p[1].num() == 0) zero_corner_listed = true; }
      else nodes.push_back({{p[0].num(), p[1].num(), base}});
    }
  if (has_bare && li <= bare_pos) surf.push(J::arr({J(base)}));
  if (bare_pos > 0 && has_bare) r.classes.push_back("bare entry after listed points");
  if (surf.size() == 0) surf.push(J::arr({J(base)}));
  feat[which] = surf;
  if (is_max) { /* min depth default 0 */ } else feat["max depth"] = 600e3;
  J cm = J::obj(); cm["model"] = "uniform"; cm["compositions"] = J::arr({J(0)});
  feat["composition models"] = J::arr({cm});
  root["features"] = J::arr({feat});
  // nodes on the boundary are probed a hair towards the centre the polygon was built around; that needs the centre strictly inside
  // (a centre on a corner or an edge - which the generator no longer produces - puts such probes on the boundary itself, where
  // membership is rounding)
  {
    const J &poly = c.at("polygon");
    for (size_t i = 0; i < poly.size(); ++i)
      {
        const J &a = poly[i], &b = poly[(i + 1) % poly.size()];
        const double ex = b[0].num() - a[0].num(), ey = b[1].num() - a[1].num(), px = c.at("cx").num() - a[0].num(), py = c.at("cy").num() - a[1].num();
        const double cr = ex * py - ey * px, dt = ex * px + ey * py, l2 = ex * ex + ey * ey;
        if (std::fabs(cr) <= 1e-9 * l2 && dt >= -1e-9 * l2 && dt <= (1 + 1e-9) * l2) { r.discard = true; r.msg = "centre of the polygon on its boundary"; return r; }
      }
  }
  auto W = make_world(root.dump());
  double vmin = 1e300, vmax = -1e300;
  for (auto &n : nodes) { vmin = std::min(vmin, n[2]); vmax = std::max(vmax, n[2]); }
  r.classes.push_back(std::string(fr.sph ? "spherical " : "cartesian ") + which);
  if (zero_corner_listed) r.classes.push_back("value listed on a corner with a zero coordinate");
  const bool affine = c.at("affine").boolean();
  // a listed point that lies on an edge of the polygon (collinear with two corners): the triangulation drops it (listed finding)
  bool edge_point_listed = false;
  {
    const J &poly = c.at("polygon");
    for (const auto &l : c.at("listed").a)
      for (size_t i = 0; i < poly.size(); ++i)
        {
          const J &a = poly[i], &b = poly[(i + 1) % poly.size()];
          const double ex = b[0].num() - a[0].num(), ey = b[1].num() - a[1].num(), px = l[0].num() - a[0].num(), py = l[1].num() - a[1].num();
          const double cr = ex * py - ey * px, dt = ex * px + ey * py, l2 = ex * ex + ey * ey;
          if (std::fabs(cr) <= 1e-9 * l2 && dt > 1e-9 * l2 && dt < (1 - 1e-9) * l2) edge_point_listed = true;
        }
  }
  if (edge_point_listed) r.classes.push_back("value listed at a point on a polygon edge");
  const std::string pre = zero_corner_listed ? "zero-coordinate-corner:" : (edge_point_listed ? "value-point-on-polygon-edge:" : "");
  auto surface_at = [&](double a, double b) {
    // max depth: inside above the surface; min depth: inside below it
    return is_max ? locate(*W, fr, a, b, 1.0, 599e3, true) : locate(*W, fr, a, b, -1.0, 599e3, false);
  };
  const double tol = 1e-3; // metres (bisection resolves to ~1e-10)
  // (a)/(e) listed points (incl. listed corners), (b) unlisted corners
  for (auto &n : nodes)
    {
      double got;
      // In spherical worlds degrees become radians and the query goes through cartesian coordinates, so a node on the
      // polygon boundary is not exactly representable: it is probed a hair (1e-7 of its distance to the centre) inside,
      // and the tolerance is widened by the change an interpolant bounded by the nodal range can show over that step.
      double pa = n[0], pb = n[1], extra_tol = 0;
      if (fr.sph) { pa = c.at("cx").num() + (1 - 1e-7) * (n[0] - c.at("cx").num()); pb = c.at("cy").num() + (1 - 1e-7) * (n[1] - c.at("cy").num()); extra_tol = 1e-4 * (vmax - vmin) + 1e-3; }
      try { got = surface_at(pa, pb); }
      catch (const std::exception &e) { return Result::fail(pre + "nodal-query-rejected", "query at the node (" + fmt(n[0]) + "," + fmt(n[1]) + ") throws: " + std::string(e.what()).substr(0, 200)); }
      r.inner++; r.inner_nt++; r.nontrivial = true;
      if (std::isnan(got)) { r.classes.push_back("node-on-polygon-boundary-not-inside(skipped)"); continue; }
      if (std::fabs(got - n[2]) > tol + extra_tol)
        return Result::fail(pre + "nodal-value", c.at("type").str() + " " + which + ": the depth used at the node (" + fmt(n[0]) + "," + fmt(n[1]) + ") is " + fmt(got) + ", the value that belongs there is " + fmt(n[2]) + " (polygon " + c.at("polygon").dump() + ")");
    }
  for (const auto &p : c.at("probes").a)
    {
      double got;
      try { got = surface_at(p[0].num(), p[1].num()); }
      catch (const std::exception &e) { return Result::fail(pre + "interior-query-rejected", "query inside the polygon throws: " + std::string(e.what()).substr(0, 200) + " at " + p.dump()); }
      r.inner++; r.inner_nt++;
      if (std::isnan(got)) { r.classes.push_back("probe-bracket-failed(skipped)"); continue; }
      if (got < vmin - tol || got > vmax + tol)
        return Result::fail(pre + "surface-out-of-bounds", which + " used at " + p.dump() + " is " + fmt(got) + ", outside the nodal range [" + fmt(vmin) + "," + fmt(vmax) + "]");
      if (affine)
        {
          const double want = base + c.at("ax").num() * (p[0].num() - c.at("cx").num()) + c.at("ay").num() * (p[1].num() - c.at("cy").num());
          if (std::fabs(got - want) > 1e-6 * (std::fabs(want) + 1) + tol)
            return Result::fail(pre + "surface-not-affine-exact", which + " used at " + p.dump() + " is " + fmt(got) + ", the affine function all nodal values sample gives " + fmt(want));
        }
    }
  return r;
}

int main(int argc, char **argv)
{
  return run_main("C11", argc, argv,
  {
    {"surface_object", "Objects::Surface built directly from 3..40 listed points (1 km lattice / arbitrary metres / radians), values arbitrary or samples of one affine function; (a) value at every listed point, (c) bounds and (d) affine reproduction at points inside the hull", 300, gen_surface, check_surface},
    {"world_surface", "area feature (all three types, both coordinate systems, 25% of the polygons around the origin) whose min or max depth is given at 0..10 interior/edge points and a random subset (affine case: all) of the corners; the depth actually used is located by bisection on the membership indicator: (a) listed value at listed points, (b) the bare default at unlisted corners, (e) a value listed on a corner replaces the default, (c) bounds and (d) affine reproduction at interior probes", 80, gen_world_surface, check_world_surface, 100, true, true},
  });
}
