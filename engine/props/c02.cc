// C02 — features paint in file order; only covering features matter; operations compose.
#include "../gen.h"

using namespace vf;
namespace WB = WorldBuilder;

static const PropList &full_list()
{
  static const PropList l = {{{1, 0, 0}}, {{2, 0, 0}}, {{2, 1, 0}}, {{2, 2, 0}}, {{2, 3, 0}}, {{2, 4, 0}}, {{2, 5, 0}}, {{3, 0, 2}}, {{3, 1, 1}}, {{3, 2, 3}}, {{5, 0, 0}}, {{4, 0, 0}}};
  return l;
}
// The request may list the properties in any order (wide blocks - grains, velocity - before or after the one-value ones); the answers
// are put back into the order of full_list() so that the oracles below can address them by fixed positions.
static std::vector<size_t> layout_order(int layout)
{
  const size_t n = full_list().size();
  std::vector<size_t> o(n);
  for (size_t i = 0; i < n; ++i) o[i] = i;
  if (layout == 1) o = {10, 7, 0, 9, 1, 2, 3, 8, 4, 5, 6, 11};       // velocity, grains, T, grains, ...
  else if (layout == 2) std::reverse(o.begin(), o.end());
  else if (layout == 3) std::rotate(o.begin(), o.begin() + 7, o.end()); // the three grains blocks and velocity first
  return o;
}
static std::vector<double> query_canonical(const WB::World &W, const std::array<double, 3> &p, double depth, int layout)
{
  const std::vector<size_t> o = layout_order(layout);
  PropList l;
  for (size_t i : o) l.push_back(full_list()[i]);
  const std::vector<double> raw = W.properties(p, depth, l);
  std::vector<size_t> start(full_list().size() + 1, 0);
  for (size_t i = 0; i < full_list().size(); ++i) start[i + 1] = start[i] + prop_width(full_list()[i]);
  std::vector<double> out(start.back(), 0.0);
  size_t pos = 0;
  for (size_t i : o) { for (unsigned k = 0; k < prop_width(full_list()[i]); ++k) out[start[i] + k] = raw[pos + k]; pos += prop_width(full_list()[i]); }
  return out;
}
static const char *slot_name(size_t i)
{
  static const char *n[] = {"T", "c0", "c1", "c2", "c3", "c4", "c5", "grains(0,2)", "grains(1,1)", "grains(2,3)", "velocity", "tag"};
  return n[i];
}

static J without_features(const J &root, const std::vector<size_t> &keep)
{
  J r = root;
  J f = J::arr();
  for (size_t i : keep) f.push(root.at("features")[i]);
  r["features"] = f;
  return r;
}

static std::string tag_string(const WB::World &w, double tag)
{
  if (tag < 0) return "<none>";
  const size_t i = static_cast<size_t>(tag);
  return i < w.feature_tags.size() ? w.feature_tags[i] : "<out of range>";
}

// every model list of a feature removed, at feature, section and segment level
static void strip_models(J &j)
{
  if (j.is_obj())
    {
      for (const char *k : {"temperature models", "composition models", "grains models", "velocity models"}) if (j.has(k)) j.erase(k);
      for (auto &kv : j.o) strip_models(kv.second);
    }
  else if (j.is_arr()) for (auto &e : j.a) strip_models(e);
}

// which features of `root` cover the query, decided by the code itself on single-feature worlds. The extent of a feature is its
// geometry, whatever models it carries (a feature without any model still contains its points and reports its tag), so each
// single-feature world holds the feature's geometry with one indicator model instead of its own models.
struct Singles
{
  std::vector<std::unique_ptr<WB::World>> w;   // the feature alone, with its own models
  std::vector<std::unique_ptr<WB::World>> geo; // the feature's geometry alone, with one indicator model
  explicit Singles(const J &root)
  {
    for (size_t i = 0; i < root.at("features").size(); ++i)
      {
        w.push_back(make_world(without_features(root, {i}).dump(), 1, "single"));
        J one = without_features(root, {i});
        strip_models(one["features"][0]);
        J cm = J::obj();
        cm["model"] = "uniform"; cm["compositions"] = J::arr({J(0)});
        one["features"][0]["composition models"] = J::arr({cm});
        geo.push_back(make_world(one.dump(), 1, "single-geometry"));
      }
  }
  std::vector<size_t> covering(const J &q) const
  {
    std::vector<size_t> cov;
    for (size_t i = 0; i < geo.size(); ++i)
      if (geo[i]->properties(p3(q.at("p")), q.at("depth").num(), {{{4, 0, 0}}})[0] != -1) cov.push_back(i);
    return cov;
  }
};

// ---------------------------------------------------------------- (1) locality / deletion / permutation
static J gen_locality(Chooser &ch)
{
  g::Opt o;
  o.min_features = 2; o.max_features = 7;
  o.operations = true; o.model_ranges = true; o.global_constants = ch.flip(); o.hub_spread_km = 150;
  g::GW w = g::gen_world(ch, o);
  // 12% of the features carry no model at all (a pure region marker): such a feature still contains its points and gives them its tag
  for (auto &f : w.root["features"].a) if (ch.chance(12)) strip_models(f);
  J c = J::obj();
  c["world"] = w.root.dump();
  c["queries"] = g::gen_queries(ch, w, static_cast<int>(ch.range(2, 8)), 90);
  c["perm_seed"] = static_cast<int>(ch.range(0, 1000));
  return c;
}

static Result compare_answers(const WB::World &A, const WB::World &B, const J &q, const std::string &what, Result r)
{
  const std::vector<double> a = A.properties(p3(q.at("p")), q.at("depth").num(), full_list());
  const std::vector<double> b = B.properties(p3(q.at("p")), q.at("depth").num(), full_list());
  size_t pos = 0;
  for (size_t i = 0; i < full_list().size(); ++i)
    {
      const unsigned wdt = prop_width(full_list()[i]);
      if (full_list()[i][0] == 4)
        {
          if (tag_string(A, a[pos]) != tag_string(B, b[pos]))
            return Result::fail("locality-tag", what + ": tag '" + tag_string(A, a[pos]) + "' became '" + tag_string(B, b[pos]) + "'; query " + q.dump());
        }
      else
        for (unsigned k = 0; k < wdt; ++k)
          if (!same_bits(a[pos + k], b[pos + k]) && !(std::isnan(a[pos + k]) && std::isnan(b[pos + k])))
            return Result::fail(std::string("locality-") + (full_list()[i][0] == 1 ? "temperature" : full_list()[i][0] == 2 ? "composition" : full_list()[i][0] == 3 ? "grains" : "velocity"),
                                what + ": " + slot_name(i) + " slot " + std::to_string(k) + " changed from " + fmt(a[pos + k]) + " to " + fmt(b[pos + k]) + "; query " + q.dump());
      pos += wdt;
    }
  return r;
}

static Result check_locality(const J &c)
{
  Result r;
  const J root = J::parse(c.at("world").str());
  auto W = make_world(c.at("world").str(), 1, "full");
  const Singles singles(root);
  const size_t n = root.at("features").size();
  for (const auto &q : c.at("queries").a)
    {
      const std::vector<size_t> cov = singles.covering(q);
      r.inner++;
      if (cov.size() >= 2) { r.nontrivial = true; r.inner_nt++; }
      r.classes.push_back("covering=" + std::to_string(std::min<size_t>(cov.size(), 4)) + (cov.size() >= 4 ? "+" : ""));
      if (cov.size() == n) r.classes.push_back("nothing-to-delete");
      // the reported tag is that of the last feature containing the point (none: no tag)
      {
        std::string want = "<none>";
        if (!cov.empty()) { const J &f = root.at("features")[cov.back()]; want = f.has("tag") ? f.at("tag").str() : f.at("model").str(); }
        const std::string got = tag_string(*W, W->properties(p3(q.at("p")), q.at("depth").num(), {{{4, 0, 0}}})[0]);
        bool modelless = false;
        if (!cov.empty()) { J f = root.at("features")[cov.back()]; const std::string before = f.dump(); strip_models(f); modelless = f.dump() == before; }
        if (modelless) r.classes.push_back("last covering feature has no models");
        if (got != want) return Result::fail("locality-last-tag", "tag is '" + got + "', the last feature containing the point has tag '" + want + "'" + (modelless ? " (a feature without models)" : "") + "; query " + q.dump());
      }
      // (a) delete every non-covering feature
      {
        auto Wd = make_world(without_features(root, cov).dump(), 1, "deleted");
        r = compare_answers(*W, *Wd, q, "deleting the " + std::to_string(n - cov.size()) + " features that do not contain the point", r);
        if (!r.ok) return r;
      }
      // (b) delete one non-covering feature at a time
      for (size_t d = 0; d < n; ++d)
        {
          if (std::find(cov.begin(), cov.end(), d) != cov.end()) continue;
          std::vector<size_t> keep;
          for (size_t i = 0; i < n; ++i) if (i != d) keep.push_back(i);
          auto Wd = make_world(without_features(root, keep).dump(), 1, "deleted1");
          r = compare_answers(*W, *Wd, q, "deleting feature " + std::to_string(d) + " (" + root.at("features")[d].at("model").str() + "), which does not contain the point", r);
          if (!r.ok) return r;
        }
      // (c) move the non-covering features elsewhere in the list (covering ones keep their relative order)
      {
        std::vector<size_t> non;
        for (size_t i = 0; i < n; ++i) if (std::find(cov.begin(), cov.end(), i) == cov.end()) non.push_back(i);
        if (!non.empty())
          {
            SeedChooser sc(static_cast<uint64_t>(c.at("perm_seed").num()) + 7);
            std::vector<size_t> order = cov;
            for (size_t i : non) order.insert(order.begin() + static_cast<long>(sc.index(order.size() + 1)), i);
            auto Wp = make_world(without_features(root, order).dump(), 1, "permuted");
            r = compare_answers(*W, *Wp, q, "moving the non-covering features to other list positions", r);
            if (!r.ok) return r;
          }
      }
    }
  return r;
}

// ---------------------------------------------------------------- (2) fold with operations, (3) tag
static J gen_fold(Chooser &ch)
{
  g::Opt o;
  o.min_features = 2; o.max_features = 7;
  o.uniform_only = true; o.operations = true; o.model_ranges = true; o.line_model_ranges = false; o.top_truncation = false;
  o.global_constants = ch.flip(); o.hub_spread_km = 150;
  g::GW w = g::gen_world(ch, o);
  // 30% of the oceanic and subducting plates also carry a 'tian water content' model somewhere in their composition list: the value
  // it gives to the composition it lists is not a closed form of the file, but what its operation does to the compositions it does
  // not list is (replace clears them, every other operation leaves them alone)
  for (size_t i = 0; i < w.feats.size(); ++i)
    if ((w.feats[i].type == "oceanic plate" || w.feats[i].type == "subducting plate") && ch.chance(30))
      {
        J &f = w.root["features"][i];
        J t = J::obj();
        t["model"] = "tian water content";
        t["compositions"] = J::arr({J(static_cast<int>(ch.range(0, 5)))});
        t["lithology"] = ch.pick<std::string>({"peridotite", "gabbro", "MORB", "sediment"});
        t["initial water content"] = ch.lattice(0.5, 5, 0.5);
        t["cutoff pressure"] = ch.lattice(1, 26, 1);
        if (ch.chance(50)) t["operation"] = ch.pick<std::string>({"replace", "replace defined only", "add", "subtract"});
        if (w.feats[i].type == "oceanic plate" && ch.chance(40)) t["max depth"] = w.feats[i].dmin + ch.lattice(0.25, 0.75, 0.25) * (w.feats[i].dmax - w.feats[i].dmin);
        if (!f.has("composition models")) f["composition models"] = J::arr();
        J &list = f["composition models"];
        list.a.insert(list.a.begin() + static_cast<long>(ch.index(list.size() + 1)), t);
      }
  // ... and 25% of the continental plates a 'random' composition model (what it paints is a draw, what its operation does to the
  // compositions it does not list is the same rule)
  for (size_t i = 0; i < w.feats.size(); ++i)
    if (w.feats[i].type == "continental plate" && ch.chance(25))
      {
        J &f = w.root["features"][i];
        J t = J::obj();
        t["model"] = "random";
        t["compositions"] = J::arr({J(static_cast<int>(ch.range(0, 5)))});
        t["min value"] = J::arr({J(0.25)}); t["max value"] = J::arr({J(0.75)});
        if (ch.chance(70)) t["operation"] = ch.pick<std::string>({"replace", "replace defined only", "add", "subtract"});
        if (!f.has("composition models")) f["composition models"] = J::arr();
        J &list = f["composition models"];
        list.a.insert(list.a.begin() + static_cast<long>(ch.index(list.size() + 1)), t);
      }
  J c = J::obj();
  c["world"] = w.root.dump();
  c["queries"] = g::gen_queries(ch, w, static_cast<int>(ch.range(2, 10)), 92);
  c["layout"] = static_cast<int>(ch.range(0, 3)); // order of the properties in the request (the oracle is the same for all)
  return c;
}

static bool in_range(const J &model, const std::string &type, double depth)
{
  if (type == "subducting plate" || type == "fault") return true; // no per-model ranges generated for line features here
  const double lo = model.has("min depth") ? model.at("min depth").num() : 0.0;
  const double hi = model.has("max depth") ? model.at("max depth").num() : std::numeric_limits<double>::max();
  return depth >= lo && depth <= hi;
}

static double apply_op(const std::string &op, double old_v, double v)
{
  if (op == "add") return old_v + v;
  if (op == "subtract") return old_v - v;
  return v;
}

static Result check_fold(const J &c)
{
  Result r;
  Result deferred;
  const J root = J::parse(c.at("world").str());
  auto W = make_world(c.at("world").str(), 1, "full");
  const Singles singles(root);
  const double Tp = root.has("potential mantle temperature") ? root.at("potential mantle temperature").num() : 1600;
  const double al = root.has("thermal expansion coefficient") ? root.at("thermal expansion coefficient").num() : 3.5e-5;
  const double cp = root.has("specific heat") ? root.at("specific heat").num() : 1250;
  const double gm = (root.has("gravity model") && root.at("gravity model").has("magnitude")) ? root.at("gravity model").at("magnitude").num() : 9.81;
  for (const auto &q : c.at("queries").a)
    {
      const double depth = q.at("depth").num();
      const std::vector<size_t> cov = singles.covering(q);
      std::set<std::string> ops;
      double T = Tp * std::exp(al * gm * depth / cp);
      double comp[6] = {0, 0, 0, 0, 0, 0};
      bool comp_known[6] = {true, true, true, true, true, true}; // false: painted by a model whose value is no closed form of the file
      std::string tag = "<none>";
      for (size_t fi : cov)
        {
          const J &f = root.at("features")[fi];
          const std::string type = f.at("model").str();
          tag = f.has("tag") ? f.at("tag").str() : type;
          if (f.has("temperature models"))
            for (const auto &m : f.at("temperature models").a)
              if (in_range(m, type, depth))
                {
                  const std::string op = m.has("operation") ? m.at("operation").str() : "replace";
                  ops.insert("T:" + op);
                  T = apply_op(op, T, m.at("temperature").num());
                }
          if (f.has("composition models"))
            for (const auto &m : f.at("composition models").a)
              if (in_range(m, type, depth))
                {
                  const std::string op = m.has("operation") ? m.at("operation").str() : "replace";
                  const bool water = m.at("model").str() == "tian water content" || m.at("model").str() == "random";
                  ops.insert(std::string(water ? (m.at("model").str() == "random" ? "c(random):" : "c(water):") : "c:") + op);
                  for (int n = 0; n < 6; ++n)
                    {
                      bool listed = false;
                      for (size_t k = 0; k < m.at("compositions").size(); ++k)
                        if (static_cast<int>(m.at("compositions")[k].num()) == n)
                          {
                            const double fr = m.has("fractions") ? m.at("fractions")[k].num() : 1.0;
                            comp[n] = apply_op(op, comp[n], fr);
                            if (water) comp_known[n] = false;
                            else if (op == "replace" || op == "replace defined only") comp_known[n] = true;
                            listed = true;
                            break;
                          }
                      if (!listed && op == "replace") { comp[n] = 0.0; comp_known[n] = true; }
                    }
                }
        }
      const int layout = c.has("layout") ? static_cast<int>(c.at("layout").num()) : 0;
      const std::vector<double> out = query_canonical(*W, p3(q.at("p")), depth, layout);
      if (layout) r.classes.push_back("request lists wide blocks before the temperature");
      r.inner++;
      if (cov.size() >= 2 && ops.size() >= 2) { r.nontrivial = true; r.inner_nt++; }
      r.classes.push_back("covering=" + std::to_string(std::min<size_t>(cov.size(), 4)));
      for (auto &o : ops) r.classes.push_back("op " + o);
      if (!close_rel(out[0], T, 1e-12))
        return Result::fail("fold-temperature", "temperature " + fmt(out[0]) + ", in-order fold of the covering features " + std::to_string(cov.size()) + " gives " + fmt(T) + "; query " + q.dump());
      for (int n = 0; n < 6; ++n)
        if (!comp_known[n]) r.classes.push_back("composition painted by a water / random model (not asserted)");
        else if (!close_rel(out[1 + static_cast<size_t>(n)], comp[n], 1e-12, 1e-13))
          return Result::fail("fold-composition", "composition " + std::to_string(n) + " is " + fmt(out[1 + static_cast<size_t>(n)]) + ", in-order fold gives " + fmt(comp[n]) + "; query " + q.dump());
      const std::string got_tag = tag_string(*W, out.back());
      if (got_tag != tag) return Result::fail("fold-tag", "tag is '" + got_tag + "', the last feature containing the point has tag '" + tag + "'; query " + q.dump());

      // grains: the last covering feature that has a grains model decides; a feature without grains models leaves them as they were
      const size_t gpos[3] = {7, 7 + 20, 7 + 20 + 10};
      const PropList gl = {{{3, 0, 2}}, {{3, 1, 1}}, {{3, 2, 3}}};
      for (size_t gi = 0; gi < 3; ++gi)
        {
          // expected = fold over covering features of their single-feature answers (uniform grains replace listed compositions only)
          std::vector<double> expect(prop_width(gl[gi]), 0.0);
          for (size_t fi : cov)
            {
              const J &f = root.at("features")[fi];
              if (!f.has("grains models")) continue;
              bool lists = false;
              for (const auto &m : f.at("grains models").a)
                for (const auto &cn : m.at("compositions").a)
                  if (static_cast<unsigned>(cn.num()) == gl[gi][1]) lists = true;
              if (!lists) continue;
              expect = singles.w[fi]->properties(p3(q.at("p")), depth, {gl[gi]});
            }
          for (size_t k = 0; k < expect.size(); ++k)
            if (!close_rel(out[gpos[gi] + k], expect[k], 1e-12, 1e-13))
              {
                // listed finding: nothing painted grains for this composition (all zero expected), a slab/fault
                // covers the point, and what comes back is exactly "sizes 0, identity matrices"
                bool all_zero_expected = true;
                for (double e : expect) if (e != 0) all_zero_expected = false;
                bool line_cov = false;
                for (size_t fi : cov) { const std::string t = root.at("features")[fi].at("model").str(); if (t == "subducting plate" || t == "fault") line_cov = true; }
                const unsigned kk = gl[gi][2];
                bool identity_shape = true;
                for (unsigned g0 = 0; g0 < kk; ++g0)
                  {
                    if (out[gpos[gi] + g0] != 0) identity_shape = false;
                    for (unsigned a = 0; a < 9; ++a) if (out[gpos[gi] + kk + g0 * 9 + a] != ((a % 4 == 0) ? 1.0 : 0.0)) identity_shape = false;
                  }
                const bool listed = all_zero_expected && line_cov && identity_shape;
                Result f = Result::fail(listed ? "grains-zero-through-line-feature" : "fold-grains", std::string("grains ") + slot_name(7 + gi) + " slot " + std::to_string(k) + " is " + fmt(out[gpos[gi] + k]) + " but the last covering feature with a grains model for that composition gives " + fmt(expect[k]) + " (features without grains models must leave grains unchanged); query " + q.dump());
                if (!listed) return f;
                if (deferred.ok) deferred = f; else if (deferred.signature.find(f.signature) == std::string::npos) deferred.signature += "+" + f.signature;
                break;
              }
        }
      // velocity: a line feature applies its velocity models to the velocity painted before it (and leaves
      // it alone if it has none). `listed` replays the recorded defect (z seeded from x+2 in slabs/faults)
      // so that exactly that root cause - and nothing else - is classified as the known finding.
      {
        std::vector<double> expect(3, 0.0), listed(3, 0.0);
        bool decidable = true;
        for (size_t fi : cov)
          {
            const J &f = root.at("features")[fi];
            const std::string t = f.at("model").str();
            const bool line = t == "subducting plate" || t == "fault";
            if (line) listed[2] = listed[0] + 2.0;
            if (f.has("velocity models"))
              {
                const J &m = f.at("velocity models")[0];
                const std::string op = m.has("operation") ? m.at("operation").str() : "replace";
                for (size_t k = 0; k < 3; ++k) { expect[k] = apply_op(op, line ? expect[k] : 0.0, m.at("velocity")[k].num()); listed[k] = apply_op(op, line ? listed[k] : 0.0, m.at("velocity")[k].num()); }
              }
            else if (!line) decidable = false; // the statement makes no claim about area features without velocity models
          }
        if (decidable)
          {
            bool ok = true, is_listed = true;
            for (size_t k = 0; k < 3; ++k)
              {
                if (!close_rel(out[67 + k], expect[k], 1e-12, 1e-15)) ok = false;
                if (!close_rel(out[67 + k], listed[k], 1e-12, 1e-15)) is_listed = false;
              }
            if (!ok)
              {
                Result f = Result::fail(is_listed ? "line-feature-velocity-z-init" : "fold-velocity", "velocity is (" + fmt(out[67]) + "," + fmt(out[68]) + "," + fmt(out[69]) + "), in-order application gives (" + fmt(expect[0]) + "," + fmt(expect[1]) + "," + fmt(expect[2]) + "); query " + q.dump());
                if (!is_listed) return f;
                if (deferred.ok) deferred = f; else if (deferred.signature.find(f.signature) == std::string::npos) deferred.signature += "+" + f.signature; // reported after everything else in this case has been checked
              }
          }
      }
    }
  if (!deferred.ok) { deferred.nontrivial = r.nontrivial; deferred.classes = r.classes; deferred.inner = r.inner; deferred.inner_nt = r.inner_nt; return deferred; }
  return r;
}

int main(int argc, char **argv)
{
  return run_main("C02", argc, argv,
  {
    {"locality", "stacks of 2..7 features of every type with deterministic models and operations; coverage decided by the code on single-feature worlds; deleting / deleting one by one / re-positioning the non-covering features must not change any value (bitwise) nor the tag string. Non-trivial: >=2 covering features", 50, gen_locality, check_locality},
    {"fold", "stacks of 2..7 features with uniform temperature/composition models, operations replace/replace defined only/add/subtract, per-model depth ranges; oracle: background + in-order fold; tag string of last covering feature; grains/velocity pass-through. Non-trivial: >=2 covering features and >=2 distinct operations applied", 60, gen_fold, check_fold},
  });
}
