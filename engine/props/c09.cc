// C09 — the 2D cross-section interface equals the 3D interface along the section.
#include "../gen.h"

using namespace vf;
namespace WB = WorldBuilder;

static J gen_section(Chooser &ch)
{
  g::Opt o;
  o.min_features = 1; o.max_features = 4;
  o.operations = true; o.cross_section = 2; o.global_constants = ch.chance(30);
  g::GW w = g::gen_world(ch, o);
  // sections of any origin and direction incl. axis-aligned, reversed, far from the features
  if (ch.chance(25))
    {
      const J &cs = w.root.at("cross section");
      const double ax = cs[0][0].num(), ay = cs[0][1].num();
      const int kind = static_cast<int>(ch.range(0, 3));
      const double len = w.fr.sph ? 10 : 500e3;
      if (kind == 0) w.root["cross section"] = J::arr({jp(ax, ay), jp(ax + len, ay)});
      else if (kind == 1) w.root["cross section"] = J::arr({jp(ax, ay), jp(ax, ay - len)});
      else if (kind == 2) w.root["cross section"] = J::arr({jp(ax, ay), jp(ax - len, ay)});
      else w.root["cross section"] = J::arr({cs[1], cs[0]});
    }
  J c = J::obj();
  c["world"] = w.root.dump();
  c["sph"] = w.fr.sph; c["R"] = w.fr.R; c["H"] = w.fr.H;
  // 2D points: aim at the features by projecting feature-aimed queries onto the section
  const J &cs = w.root.at("cross section");
  const double ax = cs[0][0].num(), ay = cs[0][1].num(), bx = cs[1][0].num(), by = cs[1][1].num();
  const double un = std::sqrt((bx - ax) * (bx - ax) + (by - ay) * (by - ay));
  const double ux = (bx - ax) / un, uy = (by - ay) / un;
  J qs = J::arr();
  const int n = static_cast<int>(ch.range(2, 12));
  for (int i = 0; i < n; ++i)
    {
      const J q = g::gen_query(ch, w, (!w.feats.empty() && ch.chance(85)) ? &w.feats[ch.index(w.feats.size())] : nullptr);
      const double depth = q.at("depth").num();
      double s = (q.at("nat")[0].num() - ax) * ux + (q.at("nat")[1].num() - ay) * uy; // coordinate along the section (m or degrees)
      if (ch.chance(10)) s = -s;
      J e = J::obj();
      if (w.fr.sph) { const double rr = w.fr.R - depth, th = s * DEG; e["x"] = rr * std::cos(th); e["z"] = rr * std::sin(th); }
      else { e["x"] = s; e["z"] = w.fr.H - depth; }
      e["depth"] = depth;
      qs.push(e);
    }
  c["queries"] = qs;
  c["props"] = g::gen_props(ch, 6);
  return c;
}

static Result check_section(const J &c)
{
  Result r;
  const J root = J::parse(c.at("world").str());
  const bool sph = c.at("sph").boolean();
  auto W = make_world(c.at("world").str());
  const J &cs = root.at("cross section");
  const double f = sph ? DEG : 1.0;
  const double ax = cs[0][0].num() * f, ay = cs[0][1].num() * f, bx = cs[1][0].num() * f, by = cs[1][1].num() * f;
  const double un = std::sqrt((bx - ax) * (bx - ax) + (by - ay) * (by - ay));
  const double ux = (bx - ax) / un, uy = (by - ay) / un;
  const bool oblique = std::fabs(ux) > 1e-6 && std::fabs(uy) > 1e-6;
  PropList pl = props_from(c.at("props"));
  PropList with_tag = pl;
  with_tag.push_back({{4, 0, 0}});
  for (const auto &q : c.at("queries").a)
    {
      const double x = q.at("x").num(), z = q.at("z").num(), depth = q.at("depth").num();
      // the mapping of the statement
      std::array<double, 3> P;
      if (sph)
        {
          const double ang = std::atan2(z, x), rad = std::sqrt(x * x + z * z);
          P = sph2cart(rad, ax + ang * ux, ay + ang * uy);
        }
      else P = {{ax + x * ux, ay + x * uy, z}};
      const std::vector<double> o2 = W->properties(std::array<double, 2>{{x, z}}, depth, with_tag);
      const std::vector<double> o3 = W->properties(P, depth, with_tag);
      r.inner++;
      if (o2.size() != o3.size()) return Result::fail("size", "2D and 3D answers have different sizes");
      const bool inside = o3.back() != -1;
      if (inside && oblique) { r.nontrivial = true; r.inner_nt++; }
      if (inside) r.classes.push_back(sph ? "inside spherical" : "inside cartesian");
      // expected 2D answer from the 3D one
      std::vector<double> want = o3;
      size_t pos = 0;
      std::vector<std::pair<size_t, unsigned>> vel_slots;
      for (const auto &pr : with_tag)
        {
          if (pr[0] == 5)
            {
              if (!sph) { const double vx = o3[pos], vy = o3[pos + 1], vz = o3[pos + 2]; want[pos] = vx * ux + vy * uy; want[pos + 1] = vz; want[pos + 2] = 0; }
              vel_slots.emplace_back(pos, 3);
            }
          pos += prop_width(pr);
        }
      bool mismatch = false;
      size_t bad = 0;
      for (size_t i = 0; i < want.size(); ++i)
        {
          bool is_vel = false;
          for (auto &vs : vel_slots) if (i >= vs.first && i < vs.first + vs.second) is_vel = true;
          if (is_vel && sph) continue; // the statement fixes the velocity convention for cartesian worlds only
          // 1e-7 relative; absolute 1e-8: operations add and subtract terms of order one (fractions, velocities), so a value
          // that happens to cancel to 1e-4 still carries the rounding of its terms (the mapped point differs in the last digits
          // and a distance behind a Newton iteration then differs by up to 1e-7 of itself)
          if (!close_rel(o2[i], want[i], 1e-7, 1e-8)) { mismatch = true; bad = i; break; }
        }
      if (mismatch)
        {
          // boundary-robust comparison: is the 3D answer itself discontinuous within 1e-3 m of P?
          bool ambiguous = false;
          const double d = sph ? 1e-2 : 1e-3;
          for (int k = 0; k < 7 && !ambiguous; ++k)
            {
              std::array<double, 3> Q = P;
              double dd = depth;
              if (k < 6) Q[static_cast<size_t>(k / 2)] += (k % 2 ? d : -d); else dd += d;
              const std::vector<double> o = W->properties(Q, dd, with_tag);
              for (size_t i = 0; i < o.size(); ++i) if (!close_rel(o[i], o3[i], 1e-6, 1e-9)) ambiguous = true;
            }
          if (ambiguous) { r.classes.push_back("boundary-ambiguous(skipped)"); continue; }
          bool is_vel = false;
          for (auto &vs : vel_slots) if (bad >= vs.first && bad < vs.first + vs.second) is_vel = true;
          return Result::fail(is_vel ? "2d-velocity" : "2d-vs-3d", std::string(sph ? "spherical" : "cartesian") + " section " + cs.dump() + ": 2D query (x=" + fmt(x) + ", z=" + fmt(z) + ", depth " + fmt(depth) + ") slot " + std::to_string(bad) + " of " + c.at("props").dump() + "+tag is " + fmt(o2[bad]) + ", the 3D interface at the mapped point gives " + fmt(want[bad]));
        }
      // every property asked for on its own through the 2D interface (a one-entry list takes its own path through the wrappers) must
      // give the block it gives inside the batch
      {
        size_t p0 = 0;
        for (const auto &pr : with_tag)
          {
            const unsigned wdt = prop_width(pr);
            const std::vector<double> one = W->properties(std::array<double, 2>{{x, z}}, depth, {pr});
            r.inner++;
            if (one.size() != wdt) return Result::fail("2d-single-size", "2D request for the single property " + std::to_string(pr[0]) + " returns " + std::to_string(one.size()) + " values instead of " + std::to_string(wdt));
            if (!(pr[0] == 5 && sph))
              for (unsigned k = 0; k < wdt; ++k)
                if (!close_rel(one[k], want[p0 + k], 1e-7, 1e-8))
                  return Result::fail(pr[0] == 5 ? "2d-single-velocity" : "2d-single-property", std::string(sph ? "spherical" : "cartesian") + " section " + cs.dump() + ": the 2D request for property kind " + std::to_string(pr[0]) + " alone returns " + fmt(one[k]) + " in slot " + std::to_string(k) + " at (x=" + fmt(x) + ", z=" + fmt(z) + ", depth " + fmt(depth) + "), inside a batch (and through the 3D interface) it is " + fmt(want[p0 + k]));
            p0 += wdt;
          }
      }
    }
  return r;
}

// ---------------------------------------------------------------- no cross section => 2D entry points refuse
static J gen_nosection(Chooser &ch)
{
  g::Opt o;
  o.min_features = 0; o.max_features = 3; o.cross_section = 0;
  g::GW w = g::gen_world(ch, o);
  J c = J::obj();
  c["world"] = w.root.dump();
  c["x"] = ch.real(-1e6, 1e6); c["z"] = ch.real(0, 1e6); c["depth"] = ch.real(0, 5e5);
  c["props"] = g::gen_props(ch, 4);
  return c;
}
static Result check_nosection(const J &c)
{
  Result r;
  r.nontrivial = true;
  auto W = make_world(c.at("world").str());
  const std::array<double, 2> p{{c.at("x").num(), c.at("z").num()}};
  const double depth = c.at("depth").num();
  int threw = 0;
  try { W->properties(p, depth, props_from(c.at("props"))); } catch (const std::exception &) { threw++; }
  try { W->temperature(p, depth); } catch (const std::exception &) { threw++; }
  try { W->composition(p, depth, 0); } catch (const std::exception &) { threw++; }
  try { W->grains(p, depth, 0, 2); } catch (const std::exception &) { threw++; }
  r.inner = 4; r.inner_nt = 4;
  if (threw != 4) return Result::fail("2d-not-refused", "a world without cross section answered " + std::to_string(4 - threw) + " of 4 2D entry points instead of throwing");
  return r;
}

int main(int argc, char **argv)
{
  return run_main("C09", argc, argv,
  {
    {"section", "worlds with 1..4 features and a cross section of any origin/direction (25% axis-aligned or reversed), both coordinate systems; 2D points projected from feature-aimed queries; any property list; oracle: the statement's mapping + 3D interface (velocity projected in cartesian worlds), boundary-robust. Non-trivial: inside a feature and oblique section", 120, gen_section, check_section},
    {"no_section", "worlds without cross section: every 2D entry point must throw", 60, gen_nosection, check_nosection},
  });
}
