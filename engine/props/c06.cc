// C06 — slab and fault geometry equals the elementary planar construction for straight trenches.
#include "../gen.h"
#include "../ref_geometry.h"

using namespace vf;
namespace WB = WorldBuilder;

static J gen_planar(Chooser &ch)
{
  J c = J::obj();
  const bool fault = ch.chance(35);
  c["type"] = fault ? "fault" : "subducting plate";
  c["H"] = ch.lattice(1500e3, 3000e3, 100e3);
  const double x0 = ch.lattice(-2000e3, 2000e3, 1e3), y0 = ch.lattice(-2000e3, 2000e3, 1e3);
  const double az = ch.chance(20) ? ch.pick<double>({0.0, 90.0, 180.0, 270.0, 45.0}) * DEG : ch.real(-PI, PI);
  const double len = ch.real(300e3, 2000e3);
  c["p0"] = jp(x0, y0);
  c["p1"] = jp(x0 + len * std::cos(az), y0 + len * std::sin(az));
  c["extra"] = ch.chance(10) ? static_cast<int>(ch.range(1, 2)) : 0; // collinear intermediate coordinates (listed finding: kept rare)
  c["side"] = ch.flip() ? 1 : -1;
  c["dmin"] = ch.chance(60) ? 0.0 : ch.lattice(10e3, 300e3, 10e3);
  c["dmax"] = ch.chance(70) ? -1.0 : ch.lattice(200e3, 900e3, 50e3); // -1: not given
  J segs = J::arr();
  const int ns = static_cast<int>(ch.range(1, 4));
  double a_prev = ch.lattice(5, 175, 5);
  for (int i = 0; i < ns; ++i)
    {
      J s = J::obj();
      s["L"] = ch.lattice(50e3, 500e3, 10e3);
      double a0 = a_prev;
      if (i > 0 && ch.chance(30)) a0 = ch.lattice(5, 175, 5); // a kink between segments
      double a1 = ch.chance(45) ? a0 : ch.lattice(5, 175, 5);
      s["a0"] = a0; s["a1"] = a1;
      a_prev = a1;
      const double t0 = ch.lattice(20e3, 200e3, 10e3);
      s["t0"] = t0; s["t1"] = ch.chance(40) ? ch.lattice(20e3, 200e3, 10e3) : t0;
      const double tt0 = (!fault && ch.chance(35)) ? ch.lattice(-30e3, 15e3, 5e3) : 0.0;
      s["tt0"] = tt0; s["tt1"] = (!fault && ch.chance(25)) ? ch.lattice(-30e3, 15e3, 5e3) : tt0;
      segs.push(s);
    }
  c["segments"] = segs;
  // points in slab coordinates: s along the trench (fraction of its length), `along` the surface (fraction of the total length), normal offset (m)
  J pts = J::arr();
  const int np = static_cast<int>(ch.range(8, 40));
  for (int i = 0; i < np; ++i)
    {
      J p = J::obj();
      const int kind = static_cast<int>(ch.range(0, 9));
      p["s"] = kind == 0 ? ch.pick<double>({-0.05, 1.05, -0.3}) : ch.real(0.03, 0.97);
      p["l"] = kind == 1 ? ch.real(1.0, 1.2) : ch.real(0.0, 1.0);
      p["n"] = kind == 2 ? ch.real(-400e3, 400e3) : ch.real(-60e3, 230e3);
      p["uniform"] = kind >= 8;
      p["ux"] = ch.real(-900e3, 900e3); p["uz"] = ch.real(0, 900e3);
      pts.push(p);
    }
  c["points"] = pts;
  return c;
}

static Result check_planar(const J &c)
{
  Result r;
  const bool fault = c.at("type").str() == "fault";
  const double H = c.at("H").num();
  const double x0 = c.at("p0")[0].num(), y0 = c.at("p0")[1].num(), x1 = c.at("p1")[0].num(), y1 = c.at("p1")[1].num();
  const double len = std::sqrt((x1 - x0) * (x1 - x0) + (y1 - y0) * (y1 - y0));
  const double tx = (x1 - x0) / len, ty = (y1 - y0) / len;
  const double side = c.at("side").num();
  const double nx = -ty * side, ny = tx * side; // horizontal unit normal pointing to the dip-point side
  const double dmin = c.at("dmin").num();
  const double dmax_given = c.at("dmax").num();
  const double dmax = dmax_given < 0 ? std::numeric_limits<double>::max() : dmax_given;
  std::vector<ref::Seg> segs;
  double total = 0, maxthick = 0;
  J jsegs = J::arr();
  for (const auto &s : c.at("segments").a)
    {
      segs.push_back({s.at("L").num(), s.at("a0").num() * DEG, s.at("a1").num() * DEG});
      total += s.at("L").num();
      maxthick = std::max(maxthick, std::max(s.at("t0").num(), s.at("t1").num()));
      J js = J::obj();
      js["length"] = s.at("L");
      js["thickness"] = J::arr({s.at("t0"), s.at("t1")});
      js["angle"] = J::arr({s.at("a0"), s.at("a1")});
      if (!fault) js["top truncation"] = J::arr({s.at("tt0"), s.at("tt1")});
      jsegs.push(js);
    }
  // world
  J root = J::obj();
  root["version"] = "1.1";
  J feat = J::obj();
  feat["model"] = c.at("type").str();
  feat["name"] = "line";
  J coords = J::arr();
  coords.push(jp(x0, y0));
  const int extra = static_cast<int>(c.at("extra").num());
  for (int k = 1; k <= extra; ++k) coords.push(jp(x0 + (x1 - x0) * k / (extra + 1.0), y0 + (y1 - y0) * k / (extra + 1.0)));
  coords.push(jp(x1, y1));
  feat["coordinates"] = coords;
  feat["dip point"] = jp(0.5 * (x0 + x1) + nx * 5e7, 0.5 * (y0 + y1) + ny * 5e7);
  if (dmin != 0) feat["min depth"] = dmin;
  if (dmax_given >= 0) feat["max depth"] = dmax_given;
  feat["segments"] = jsegs;
  root["features"] = J::arr({feat});
  auto W = make_world(root.dump());
  r.classes.push_back(fault ? "fault" : "slab");
  r.classes.push_back("segments=" + std::to_string(segs.size()));
  if (dmin > 0) r.classes.push_back("min depth > 0");
  bool any_arc = false;
  for (auto &s : segs) if (s.a0 != s.a1) any_arc = true;
  r.classes.push_back(any_arc ? "has arc" : "straight only");

  const std::string pre = extra > 0 ? "collinear-intermediate-coordinate:" : "";
  if (extra > 0) r.classes.push_back("collinear intermediate coordinates");
  for (const auto &p : c.at("points").a)
    {
      double s_along, px, pz_depth;
      if (p.at("uniform").boolean()) { s_along = p.at("s").num() * len; px = p.at("ux").num(); pz_depth = p.at("uz").num(); }
      else
        {
          s_along = p.at("s").num() * len;
          double qx, qy;
          ref::planar_slab_point(segs, p.at("l").num() * total, p.at("n").num(), qx, qy);
          px = qx; pz_depth = dmin - qy;
        }
      if (pz_depth < 0 || pz_depth > H) continue;
      const double X = x0 + s_along * tx + px * nx, Y = y0 + s_along * ty + px * ny;
      const std::array<double, 3> P{{X, Y, H - pz_depth}};
      // reference, recomputed from the 3D point (independent of how the point was made)
      const double sfoot = (X - x0) * tx + (Y - y0) * ty;
      const double xoff = (X - x0) * nx + (Y - y0) * ny;
      const ref::PlaneDist ref_d = ref::planar_slab(segs, xoff, -(pz_depth - dmin));
      const bool foot_inside = sfoot >= 0 && sfoot <= len;
      const double end_margin = std::min(sfoot, len - sfoot);
      if (std::fabs(end_margin) < 1e-3 * len && end_margin > -1e-3 * len) { r.classes.push_back("foot-at-trench-end(skipped)"); continue; }
      const WB::Objects::PlaneDistances got = W->distance_to_plane(P, pz_depth, "line");
      r.inner++;
      const bool ref_finite = foot_inside && ref_d.segment >= 0;
      if (ref_finite && (ref_d.margin < 1e-6 * total + 1e-3 || ref_d.tie_gap < 1.0)) { r.classes.push_back("segment-end/tie(skipped)"); continue; }
      if (!ref_finite && ref_d.tie_gap < 1.0) { r.classes.push_back("segment-end/tie(skipped)"); continue; }
      const double tol = 1e-3 + 1e-9 * (std::fabs(X) + std::fabs(Y) + total);
      // the foot sits close to the first trench coordinate: listed weakness of the t^3 parametrisation of 2-point trenches
      const bool near_first = sfoot < 0.01 * len;
      if (ref_finite)
        {
          if (std::fabs(ref_d.from) < 3 * maxthick) { r.nontrivial = true; r.inner_nt++; }
          const double gf = got.get_distance_from_surface(), ga = got.get_distance_along_surface();
          if (!std::isfinite(gf) || !std::isfinite(ga))
            return Result::fail(pre + (near_first ? "foot-near-first-trench-coordinate" : "distance-infinite"), c.at("type").str() + ": planar construction gives distance " + fmt(ref_d.from) + " along " + fmt(ref_d.along) + " but distance_to_plane reports (" + fmt(gf) + "," + fmt(ga) + ") at point " + jp(X, Y, pz_depth).dump() + " (foot at " + fmt(sfoot) + " of " + fmt(len) + ")");
          if (std::fabs(gf - ref_d.from) > tol || std::fabs(ga - ref_d.along) > tol)
            return Result::fail(pre + (near_first ? "foot-near-first-trench-coordinate" : (std::fabs(gf - ref_d.from) > tol ? "distance-from-surface" : "distance-along-surface")), c.at("type").str() + ": planar construction gives distance " + fmt(ref_d.from) + " along " + fmt(ref_d.along) + " (segment " + std::to_string(ref_d.segment) + ") but distance_to_plane reports (" + fmt(gf) + "," + fmt(ga) + ") at point " + jp(X, Y, pz_depth).dump() + " (foot at " + fmt(sfoot) + " of " + fmt(len) + ")");
        }
      // membership through the tag
      const double tag = W->properties(P, pz_depth, {{{4, 0, 0}}})[0];
      bool want = false;
      bool near_bound = false;
      if (ref_finite)
        {
          const J &sg = c.at("segments")[static_cast<size_t>(ref_d.segment)];
          const double thick = sg.at("t0").num() + ref_d.frac * (sg.at("t1").num() - sg.at("t0").num());
          const double trunc = sg.at("tt0").num() + ref_d.frac * (sg.at("tt1").num() - sg.at("tt0").num());
          const double lo = fault ? -0.5 * thick : trunc, hi = fault ? 0.5 * thick : thick;
          want = ref_d.from >= lo && ref_d.from <= hi && ref_d.along >= 0 && ref_d.along <= total && pz_depth >= dmin && pz_depth <= dmax && (fault || thick >= trunc);
          const double eps = 1.0; // metres: the code's own distances carry ~1e-6 relative noise from the Newton iteration
          near_bound = std::fabs(ref_d.from - lo) < eps || std::fabs(ref_d.from - hi) < eps || std::fabs(ref_d.along) < eps || std::fabs(ref_d.along - total) < eps || std::fabs(pz_depth - dmin) < eps || std::fabs(pz_depth - dmax) < eps;
        }
      if (near_bound) continue;
      if (want) r.classes.push_back("inside");
      if (want != (tag != -1))
        {
          std::string sig = want ? "membership-false-negative" : "membership-false-positive";
          if (near_first) sig = "foot-near-first-trench-coordinate";
          else if (want && dmin > 0 && pz_depth > total + maxthick) sig = "depth-cutoff-ignores-min-depth";
          return Result::fail(pre + sig, c.at("type").str() + ": the membership definition says " + (want ? "inside" : "outside") + " (distance " + fmt(ref_d.from) + ", along " + fmt(ref_d.along) + " of " + fmt(total) + ", depth " + fmt(pz_depth) + ", min depth " + fmt(dmin) + ") but the tag is " + fmt(tag) + " at point " + jp(X, Y, pz_depth).dump());
        }
    }
  return r;
}

int main(int argc, char **argv)
{
  return run_main("C06", argc, argv,
  {
    {"planar_cartesian", "slabs and faults on a straight cartesian trench of any position/azimuth/length (30% with collinear intermediate coordinates), either dip side, 1..4 segments (straight or arcs, dips 5..175 deg, 30% kinks), thickness and top-truncation pairs, min depth 0..300 km; 8..40 points per case generated in slab coordinates (on / just off / far from the surface, beyond the tip, beyond the trench ends) plus uniform ones; oracle: planar construction for both distances of distance_to_plane (1 mm + 1e-9 scale) and for membership via the tag. Non-trivial: finite reference distance within 3 thicknesses", 120, gen_planar, check_planar, 100, true, true},
  });
}
