// C06 — slab and fault geometry equals the elementary planar construction for straight trenches.
#include "../gen.h"
#include "../ref_geometry.h"

using namespace vf;
namespace WB = WorldBuilder;

static J gen_planar(Chooser &ch)
{
  J c = J::obj();
  const bool fault = ch.chance(35);
  c["type"] = fault ? "fault" : "subducting plate";
  c["H"] = ch.lattice(1500e3, 3000e3, 100e3);
  const double x0 = ch.lattice(-2000e3, 2000e3, 1e3), y0 = ch.lattice(-2000e3, 2000e3, 1e3);
  const double az = ch.chance(20) ? ch.pick<double>({0.0, 90.0, 180.0, 270.0, 45.0}) * DEG : ch.real(-PI, PI);
  const double len = ch.real(300e3, 2000e3);
  c["p0"] = jp(x0, y0);
  c["p1"] = jp(x0 + len * std::cos(az), y0 + len * std::sin(az));
  c["extra"] = ch.chance(10) ? static_cast<int>(ch.range(1, 2)) : 0; // collinear intermediate coordinates (listed finding: kept rare)
  c["side"] = ch.flip() ? 1 : -1;
  c["dmin"] = ch.chance(60) ? 0.0 : ch.lattice(10e3, 300e3, 10e3);
  c["dmax"] = ch.chance(70) ? -1.0 : ch.lattice(200e3, 900e3, 50e3); // -1: not given
  J segs = J::arr();
  const int ns = static_cast<int>(ch.range(1, 4));
  double a_prev = ch.lattice(5, 175, 5);
  for (int i = 0; i < ns; ++i)
    {
      J s = J::obj();
      s["L"] = ch.lattice(50e3, 500e3, 10e3);
      double a0 = a_prev;
      if (i > 0 && ch.chance(30)) a0 = ch.lattice(5, 175, 5); // a kink between segments
      double a1 = ch.chance(45) ? a0 : ch.lattice(5, 175, 5);
      // 8%: a dip pair that differs in the last digits only (35 vs 35.0000000001, as a script computing dips would write it): an arc
      // of astronomically large radius, indistinguishable from the straight segment (sagitta L*da/8 below a micrometre)
      if (a1 == a0 && ch.chance(15)) a1 = a0 + (ch.flip() ? 1 : -1) * ch.pick<double>({1e-13, 3e-12, 1e-10, 2.5e-9, 4e-8});
      s["a0"] = a0; s["a1"] = a1;
      a_prev = a1;
      const double t0 = ch.lattice(20e3, 200e3, 10e3);
      s["t0"] = t0; s["t1"] = ch.chance(40) ? ch.lattice(20e3, 200e3, 10e3) : t0;
      const double tt0 = (!fault && ch.chance(35)) ? ch.lattice(-30e3, 15e3, 5e3) : 0.0;
      s["tt0"] = tt0; s["tt1"] = (!fault && ch.chance(25)) ? ch.lattice(-30e3, 15e3, 5e3) : tt0;
      // how the segment is written: a pair of equal values may be written as one value, a top truncation of zero may be left out
      // (the documented default) - also behind a segment that has one
      s["short"] = ch.flip(); s["omit_tt"] = ch.chance(70);
      segs.push(s);
    }
  c["segments"] = segs;
  // 12%: the same construction in a world whose unit of length is 1000 km (a non-dimensional or laboratory-scale model: coordinates,
  // lengths and depths of order one) with the dip point 0.4 .. 0.7 units from the trench; the reference stays in metres
  if (ch.chance(12)) { c["unit"] = 1e-6; c["dip_distance"] = ch.lattice(400e3, 700e3, 50e3); }
  // points in slab coordinates: s along the trench (fraction of its length), `along` the surface (fraction of the total length), normal offset (m)
  J pts = J::arr();
  const int np = static_cast<int>(ch.range(8, 40));
  for (int i = 0; i < np; ++i)
    {
      J p = J::obj();
      const int kind = static_cast<int>(ch.range(0, 9));
      p["s"] = kind == 0 ? ch.pick<double>({-0.05, 1.05, -0.3}) : ch.real(0.03, 0.97);
      p["l"] = kind == 1 ? ch.real(1.0, 1.2) : ch.real(0.0, 1.0);
      p["n"] = kind == 2 ? ch.real(-400e3, 400e3) : ch.real(-60e3, 230e3);
      p["uniform"] = kind >= 8;
      p["ux"] = ch.real(-900e3, 900e3); p["uz"] = ch.real(0, 900e3);
      pts.push(p);
    }
  c["points"] = pts;
  return c;
}

static Result check_planar(const J &c)
{
  Result r;
  const bool fault = c.at("type").str() == "fault";
  const double H = c.at("H").num();
  const double x0 = c.at("p0")[0].num(), y0 = c.at("p0")[1].num(), x1 = c.at("p1")[0].num(), y1 = c.at("p1")[1].num();
  const double len = std::sqrt((x1 - x0) * (x1 - x0) + (y1 - y0) * (y1 - y0));
  const double tx = (x1 - x0) / len, ty = (y1 - y0) / len;
  const double side = c.at("side").num();
  const double nx = -ty * side, ny = tx * side; // horizontal unit normal pointing to the dip-point side
  const double dmin = c.at("dmin").num();
  const double dmax_given = c.at("dmax").num();
  const double dmax = dmax_given < 0 ? std::numeric_limits<double>::max() : dmax_given;
  std::vector<ref::Seg> segs;
  double total = 0, maxthick = 0;
  J jsegs = J::arr();
  for (const auto &s : c.at("segments").a)
    {
      // the reference draws a dip pair closer than 1e-9 rad as the straight segment it is to within L*da/8 < 0.1 mm (evaluating the
      // arc formulas with a radius of 1e14 m and more would only measure cancellation error)
      const bool nearly_straight = s.at("a0").num() != s.at("a1").num() && std::fabs(s.at("a0").num() - s.at("a1").num()) * DEG < 1e-9;
      if (nearly_straight) r.classes.push_back("dip pair differing in the last digits");
      segs.push_back({s.at("L").num(), s.at("a0").num() * DEG, (nearly_straight ? s.at("a0").num() : s.at("a1").num()) * DEG});
      total += s.at("L").num();
      maxthick = std::max(maxthick, std::max(s.at("t0").num(), s.at("t1").num()));
      J js = J::obj();
      js["length"] = s.at("L");
      const bool shortform = s.has("short") && s.at("short").boolean(), omit_tt = s.has("omit_tt") && s.at("omit_tt").boolean();
      auto pair = [&](const char *a, const char *b) { return shortform && s.at(a).num() == s.at(b).num() ? J::arr({s.at(a)}) : J::arr({s.at(a), s.at(b)}); };
      js["thickness"] = pair("t0", "t1");
      js["angle"] = pair("a0", "a1");
      if (!fault && !(omit_tt && s.at("tt0").num() == 0 && s.at("tt1").num() == 0)) js["top truncation"] = pair("tt0", "tt1");
      else if (!fault) r.classes.push_back("segment without a 'top truncation' entry");
      jsegs.push(js);
    }
  // world
  J root = J::obj();
  root["version"] = "1.1";
  J feat = J::obj();
  feat["model"] = c.at("type").str();
  feat["name"] = "line";
  J coords = J::arr();
  coords.push(jp(x0, y0));
  const int extra = static_cast<int>(c.at("extra").num());
  for (int k = 1; k <= extra; ++k) coords.push(jp(x0 + (x1 - x0) * k / (extra + 1.0), y0 + (y1 - y0) * k / (extra + 1.0)));
  coords.push(jp(x1, y1));
  const double unit = c.has("unit") ? c.at("unit").num() : 1.0, dip_distance = c.has("dip_distance") ? c.at("dip_distance").num() : 5e7;
  if (unit != 1.0)
    {
      r.classes.push_back("unit of length 1000 km");
      for (auto &p : coords.a) p = jp(p[0].num() * unit, p[1].num() * unit);
      for (auto &js : jsegs.a)
        {
          js["length"] = js.at("length").num() * unit;
          for (const char *k : {"thickness", "top truncation"}) if (js.has(k)) for (auto &e : js[k].a) e = J(e.num() * unit);
        }
    }
  feat["coordinates"] = coords;
  feat["dip point"] = jp((0.5 * (x0 + x1) + nx * dip_distance) * unit, (0.5 * (y0 + y1) + ny * dip_distance) * unit);
  if (dmin != 0) feat["min depth"] = dmin * unit;
  if (dmax_given >= 0) feat["max depth"] = dmax_given * unit;
  feat["segments"] = jsegs;
  root["features"] = J::arr({feat});
  auto W = make_world(root.dump());
  r.classes.push_back(fault ? "fault" : "slab");
  r.classes.push_back("segments=" + std::to_string(segs.size()));
  if (dmin > 0) r.classes.push_back("min depth > 0");
  bool any_arc = false;
  for (auto &s : segs) if (s.a0 != s.a1) any_arc = true;
  r.classes.push_back(any_arc ? "has arc" : "straight only");

  const std::string pre = extra > 0 ? "collinear-intermediate-coordinate:" : "";
  if (extra > 0) r.classes.push_back("collinear intermediate coordinates");
  for (const auto &p : c.at("points").a)
    {
      double s_along, px, pz_depth;
      if (p.at("uniform").boolean()) { s_along = p.at("s").num() * len; px = p.at("ux").num(); pz_depth = p.at("uz").num(); }
      else
        {
          s_along = p.at("s").num() * len;
          double qx, qy;
          ref::planar_slab_point(segs, p.at("l").num() * total, p.at("n").num(), qx, qy);
          px = qx; pz_depth = dmin - qy;
        }
      if (pz_depth < 0 || pz_depth > H) continue;
      const double X = x0 + s_along * tx + px * nx, Y = y0 + s_along * ty + px * ny;
      const std::array<double, 3> P{{X * unit, Y * unit, (H - pz_depth) * unit}};
      // reference, recomputed from the 3D point (independent of how the point was made)
      const double sfoot = (X - x0) * tx + (Y - y0) * ty;
      const double xoff = (X - x0) * nx + (Y - y0) * ny;
      const ref::PlaneDist ref_d = ref::planar_slab(segs, xoff, -(pz_depth - dmin));
      const bool foot_inside = sfoot >= 0 && sfoot <= len;
      const double end_margin = std::min(sfoot, len - sfoot);
      if (std::fabs(end_margin) < 1e-3 * len && end_margin > -1e-3 * len) { r.classes.push_back("foot-at-trench-end(skipped)"); continue; }
      // which side of the trench a point lies on is decided with the help of the dip point, which works up to twice the dip point's
      // distance from the trench (the regular cases put it 50 000 km away); stay well inside that range
      if (std::fabs(xoff) > 1.5 * dip_distance) { r.classes.push_back("beyond the reach of the dip point(skipped)"); continue; }
      const WB::Objects::PlaneDistances got_raw = W->distance_to_plane(P, pz_depth * unit, "line");
      const WB::Objects::PlaneDistances got(got_raw.get_distance_from_surface() / unit, got_raw.get_distance_along_surface() / unit);
      r.inner++;
      const bool ref_finite = foot_inside && ref_d.segment >= 0;
      if (ref_finite && (ref_d.margin < 1e-6 * total + 1e-3 || ref_d.tie_gap < 1.0)) { r.classes.push_back("segment-end/tie(skipped)"); continue; }
      if (!ref_finite && ref_d.tie_gap < 1.0) { r.classes.push_back("segment-end/tie(skipped)"); continue; }
      // The closest trench point comes from a Newton iteration that stops at a parameter update below 1e-4 (bezier_curve.cc), which
      // leaves the foot up to ~2e-7 of the trench length away from the true foot *along* the trench. For a straight trench that only
      // matters through the horizontal distance sqrt(x^2 + delta^2) of a point (almost) vertically below the trench line.
      const double foot_delta = 2e-7 * len;
      const double foot_noise = std::min(foot_delta, foot_delta * foot_delta / (2 * std::max(std::fabs(xoff), 1e-300)));
      const double tol = 1e-3 + 1e-9 * (std::fabs(X) + std::fabs(Y) + total) + foot_noise;
      // the foot sits close to the first trench coordinate: listed weakness of the t^3 parametrisation of 2-point trenches
      const bool near_first = sfoot < 0.01 * len && pre.empty(); // (with collinear intermediate coordinates every failure belongs to that listed root cause)
      if (ref_finite)
        {
          if (std::fabs(ref_d.from) < 3 * maxthick) { r.nontrivial = true; r.inner_nt++; }
          const double gf = got.get_distance_from_surface(), ga = got.get_distance_along_surface();
          if (!std::isfinite(gf) || !std::isfinite(ga))
            return Result::fail(pre + (near_first ? "foot-near-first-trench-coordinate" : "distance-infinite"), c.at("type").str() + ": planar construction gives distance " + fmt(ref_d.from) + " along " + fmt(ref_d.along) + " but distance_to_plane reports (" + fmt(gf) + "," + fmt(ga) + ") at point " + jp(X, Y, pz_depth).dump() + " (foot at " + fmt(sfoot) + " of " + fmt(len) + ")");
          if (std::fabs(gf - ref_d.from) > tol || std::fabs(ga - ref_d.along) > tol)
            return Result::fail(pre + (near_first ? "foot-near-first-trench-coordinate" : (std::fabs(gf - ref_d.from) > tol ? "distance-from-surface" : "distance-along-surface")), c.at("type").str() + ": planar construction gives distance " + fmt(ref_d.from) + " along " + fmt(ref_d.along) + " (segment " + std::to_string(ref_d.segment) + ") but distance_to_plane reports (" + fmt(gf) + "," + fmt(ga) + ") at point " + jp(X, Y, pz_depth).dump() + " (foot at " + fmt(sfoot) + " of " + fmt(len) + ")");
        }
      // membership through the tag
      const double tag = W->properties(P, pz_depth * unit, {{{4, 0, 0}}})[0];
      bool want = false;
      bool near_bound = false;
      if (ref_finite)
        {
          const J &sg = c.at("segments")[static_cast<size_t>(ref_d.segment)];
          const double thick = sg.at("t0").num() + ref_d.frac * (sg.at("t1").num() - sg.at("t0").num());
          const double trunc = sg.at("tt0").num() + ref_d.frac * (sg.at("tt1").num() - sg.at("tt0").num());
          const double lo = fault ? -0.5 * thick : trunc, hi = fault ? 0.5 * thick : thick;
          want = ref_d.from >= lo && ref_d.from <= hi && ref_d.along >= 0 && ref_d.along <= total && pz_depth >= dmin && pz_depth <= dmax && (fault || thick >= trunc);
          const double eps = 1.0; // metres: the code's own distances carry ~1e-6 relative noise from the Newton iteration
          near_bound = std::fabs(ref_d.from - lo) < eps || std::fabs(ref_d.from - hi) < eps || std::fabs(ref_d.along) < eps || std::fabs(ref_d.along - total) < eps || std::fabs(pz_depth - dmin) < eps || std::fabs(pz_depth - dmax) < eps;
        }
      if (near_bound) continue;
      if (want) r.classes.push_back("inside");
      if (want != (tag != -1))
        {
          std::string sig = want ? "membership-false-negative" : "membership-false-positive";
          if (near_first) sig = "foot-near-first-trench-coordinate";
          else if (want && dmin > 0 && pz_depth > total + maxthick) sig = "depth-cutoff-ignores-min-depth";
          return Result::fail(pre + sig, c.at("type").str() + ": the membership definition says " + (want ? "inside" : "outside") + " (distance " + fmt(ref_d.from) + ", along " + fmt(ref_d.along) + " of " + fmt(total) + ", depth " + fmt(pz_depth) + ", min depth " + fmt(dmin) + ") but the tag is " + fmt(tag) + " at point " + jp(X, Y, pz_depth).dump());
        }
    }
  return r;
}

// ---------------------------------------------------------------- spherical: trench along a meridian or along the equator
// The construction is the same planar one, drawn in the vertical plane through a trench point perpendicular to the trench (a plane
// through the sphere's centre). On a sphere "vertical", "horizontal" and "depth" change along the slab, so the library's numbers can
// only agree with the flat construction up to the curvature of the sphere over the extent d of the construction: the allowance is
// 4 d^2 / R (d = |x| + |y| of the point + the surface length up to its foot), i.e. a few per cent of d for the slabs generated
// here, while a wrong side, a wrong axis, degrees taken for radians or a wrong radius are wrong by d itself.
static J gen_sph(Chooser &ch)
{
  J c = J::obj();
  const bool fault = ch.chance(35);
  c["type"] = fault ? "fault" : "subducting plate";
  c["R"] = ch.pick<double>({6371e3, 6371e3, 3390e3, 1737e3});
  c["dm"] = ch.pick<std::string>({"starting point", "begin segment", "begin at end segment"});
  const bool meridian = ch.flip();
  c["meridian"] = meridian;
  c["fixed"] = meridian ? ch.lattice(-170, 170, 1) : 0.0;                    // the trench's longitude (meridian) or latitude 0 (equator)
  const double a = meridian ? ch.lattice(-60, 40, 1) : ch.lattice(-170, 150, 1); // where it starts along the other coordinate
  c["from"] = a; c["to"] = a + ch.lattice(5, 20, 1);
  c["reversed"] = ch.flip();                                                  // coordinates listed the other way round
  c["side"] = ch.flip() ? 1 : -1;
  c["dmin"] = ch.chance(60) ? 0.0 : ch.lattice(5e3, 50e3, 5e3);
  J segs = J::arr();
  const int ns = static_cast<int>(ch.range(1, 3));
  double a_prev = ch.lattice(10, 170, 5);
  for (int i = 0; i < ns; ++i)
    {
      J s = J::obj();
      s["L"] = ch.lattice(20e3, 100e3, 5e3);
      double a0 = a_prev;
      if (i > 0 && ch.chance(30)) a0 = ch.lattice(10, 170, 5);
      const double a1 = ch.chance(45) ? a0 : ch.lattice(10, 170, 5);
      s["a0"] = a0; s["a1"] = a1;
      a_prev = a1;
      const double t0 = ch.lattice(10e3, 60e3, 5e3);
      s["t0"] = t0; s["t1"] = ch.chance(40) ? ch.lattice(10e3, 60e3, 5e3) : t0;
      s["tt0"] = 0.0; s["tt1"] = 0.0;
      segs.push(s);
    }
  c["segments"] = segs;
  J pts = J::arr();
  const int np = static_cast<int>(ch.range(8, 30));
  for (int i = 0; i < np; ++i)
    {
      J p = J::obj();
      p["s"] = ch.real(0.1, 0.9);
      p["l"] = ch.chance(12) ? ch.real(1.0, 1.2) : ch.real(0.0, 1.0);
      p["n"] = ch.chance(12) ? ch.real(-150e3, 150e3) : ch.real(-40e3, 80e3);
      pts.push(p);
    }
  c["points"] = pts;
  return c;
}

static Result check_sph(const J &c)
{
  Result r;
  const bool fault = c.at("type").str() == "fault";
  const double R = c.at("R").num();
  const bool meridian = c.at("meridian").boolean();
  const double fixed = c.at("fixed").num(), from = c.at("from").num(), to = c.at("to").num(), side = c.at("side").num(), dmin = c.at("dmin").num();
  std::vector<ref::Seg> segs;
  double total = 0, maxthick = 0;
  J jsegs = J::arr();
  for (const auto &s : c.at("segments").a)
    {
      segs.push_back({s.at("L").num(), s.at("a0").num() * DEG, s.at("a1").num() * DEG});
      total += s.at("L").num();
      maxthick = std::max(maxthick, std::max(s.at("t0").num(), s.at("t1").num()));
      J js = J::obj();
      js["length"] = s.at("L");
      js["thickness"] = J::arr({s.at("t0"), s.at("t1")});
      js["angle"] = J::arr({s.at("a0"), s.at("a1")});
      jsegs.push(js);
    }
  J root = J::obj();
  root["version"] = "1.1";
  J cs = J::obj();
  cs["model"] = "spherical"; cs["depth method"] = c.at("dm").str(); cs["radius"] = R;
  root["coordinate system"] = cs;
  J feat = J::obj();
  feat["model"] = c.at("type").str();
  feat["name"] = "line";
  J c0 = meridian ? jp(fixed, from) : jp(from, fixed), c1 = meridian ? jp(fixed, to) : jp(to, fixed);
  feat["coordinates"] = c.at("reversed").boolean() ? J::arr({c1, c0}) : J::arr({c0, c1});
  feat["dip point"] = meridian ? jp(fixed + side * 20, 0.5 * (from + to)) : jp(0.5 * (from + to), side * 20);
  if (dmin != 0) feat["min depth"] = dmin;
  feat["segments"] = jsegs;
  root["features"] = J::arr({feat});
  auto W = make_world(root.dump());
  r.classes.push_back(std::string(meridian ? "meridian" : "equator") + " / " + c.at("dm").str());
  r.classes.push_back(fault ? "fault" : "slab");
  for (const auto &p : c.at("points").a)
    {
      const double u = from + p.at("s").num() * (to - from);
      const double lon = (meridian ? fixed : u) * DEG, lat = (meridian ? u : fixed) * DEG;
      const double rh[3] = {std::cos(lat) * std::cos(lon), std::cos(lat) * std::sin(lon), std::sin(lat)};
      const double east[3] = {-std::sin(lon), std::cos(lon), 0};
      const double north[3] = {-std::sin(lat) * std::cos(lon), -std::sin(lat) * std::sin(lon), std::cos(lat)};
      const double *h = meridian ? east : north;
      double qx, qy;
      ref::planar_slab_point(segs, p.at("l").num() * total, p.at("n").num(), qx, qy);
      std::array<double, 3> P;
      for (size_t k = 0; k < 3; ++k) P[k] = (R - dmin + qy) * rh[k] + side * qx * h[k];
      const double rad = std::sqrt(P[0] * P[0] + P[1] * P[1] + P[2] * P[2]);
      const double depth = R - rad;
      if (depth < 0 || depth > 0.5 * R) continue;
      const ref::PlaneDist ref_d = ref::planar_slab(segs, qx, qy);
      if (ref_d.segment < 0) continue;
      const double d = std::fabs(qx) + std::fabs(qy) + dmin + std::fabs(ref_d.along);
      const double tol = 4 * d * d / R + 1e-3;
      if (ref_d.margin < tol || ref_d.tie_gap < 2 * tol) { r.classes.push_back("segment-end/tie(skipped)"); continue; }
      const WB::Objects::PlaneDistances got = W->distance_to_plane(P, depth, "line");
      r.inner++;
      if (std::fabs(ref_d.from) < 3 * maxthick) { r.nontrivial = true; r.inner_nt++; }
      const double gf = got.get_distance_from_surface(), ga = got.get_distance_along_surface();
      const std::string where = " at (lon,lat,depth) = (" + fmt(std::atan2(P[1], P[0]) / DEG) + "," + fmt(std::asin(P[2] / rad) / DEG) + "," + fmt(depth) + "), plane coordinates x=" + fmt(qx) + " y=" + fmt(qy) + ", allowance " + fmt(tol);
      // conditioning: near the centre of curvature of an arc the along-surface distance of a point is arbitrarily sensitive to its
      // position, so the allowance is applied to the *position*: the reported pair has to lie within the range the construction
      // gives for the points within `tol` of the point (plus tol itself)
      double f_lo = ref_d.from, f_hi = ref_d.from, a_lo = ref_d.along, a_hi = ref_d.along;
      bool stable = true;
      for (int k = 0; k < 16 && stable; ++k)
        {
          const double ang = 2 * PI * k / 16.0;
          const ref::PlaneDist q = ref::planar_slab(segs, qx + tol * std::cos(ang), qy + tol * std::sin(ang));
          if (q.segment != ref_d.segment) { stable = false; break; }
          f_lo = std::min(f_lo, q.from); f_hi = std::max(f_hi, q.from); a_lo = std::min(a_lo, q.along); a_hi = std::max(a_hi, q.along);
        }
      if (!stable) { r.classes.push_back("segment-end/tie(skipped)"); continue; }
      if (a_hi - a_lo > 0.25 * total) { r.classes.push_back("ill-conditioned: near a centre of curvature(skipped)"); continue; }
      if (!std::isfinite(gf) || !std::isfinite(ga))
        return Result::fail("sph-distance-infinite", c.at("type").str() + ": planar construction gives distance " + fmt(ref_d.from) + " along " + fmt(ref_d.along) + " but distance_to_plane reports (" + fmt(gf) + "," + fmt(ga) + ")" + where);
      const bool from_bad = gf < f_lo - tol || gf > f_hi + tol, along_bad = ga < a_lo - tol || ga > a_hi + tol;
      if (from_bad || along_bad)
        return Result::fail(from_bad ? "sph-distance-from-surface" : "sph-distance-along-surface", c.at("type").str() + ": planar construction gives distance " + fmt(ref_d.from) + " along " + fmt(ref_d.along) + " (segment " + std::to_string(ref_d.segment) + ") but distance_to_plane reports (" + fmt(gf) + "," + fmt(ga) + ")" + where);
      r.classes.push_back(std::fabs(gf - ref_d.from) > 0.25 * tol || std::fabs(ga - ref_d.along) > 0.25 * tol ? "uses > 25% of the curvature allowance" : "within 25% of the allowance");
      // membership through the tag, away from every bound by the allowance
      const J &sg = c.at("segments")[static_cast<size_t>(ref_d.segment)];
      const double thick = sg.at("t0").num() + ref_d.frac * (sg.at("t1").num() - sg.at("t0").num());
      const double lo = fault ? -0.5 * thick : 0.0, hi = fault ? 0.5 * thick : thick;
      const bool want = ref_d.from >= lo && ref_d.from <= hi && ref_d.along >= 0 && ref_d.along <= total && depth >= dmin;
      const bool near_bound = std::fabs(ref_d.from - lo) < tol || std::fabs(ref_d.from - hi) < tol || std::fabs(ref_d.along) < tol || std::fabs(ref_d.along - total) < tol || std::fabs(depth - dmin) < tol || std::fabs(qy) < tol;
      if (near_bound) continue;
      const double tag = W->properties(P, depth, {{{4, 0, 0}}})[0];
      if (want) r.classes.push_back("inside");
      if (want != (tag != -1))
        return Result::fail(want ? "sph-membership-false-negative" : "sph-membership-false-positive", c.at("type").str() + ": the membership definition says " + (want ? "inside" : "outside") + " (distance " + fmt(ref_d.from) + " in [" + fmt(lo) + "," + fmt(hi) + "], along " + fmt(ref_d.along) + " of " + fmt(total) + ", min depth " + fmt(dmin) + ") but the tag is " + fmt(tag) + where);
    }
  return r;
}

int main(int argc, char **argv)
{
  return run_main("C06", argc, argv,
  {
    {"planar_cartesian", "slabs and faults on a straight cartesian trench of any position/azimuth/length (30% with collinear intermediate coordinates), either dip side, 1..4 segments (straight or arcs, dips 5..175 deg, 30% kinks), thickness and top-truncation pairs, min depth 0..300 km; 8..40 points per case generated in slab coordinates (on / just off / far from the surface, beyond the tip, beyond the trench ends) plus uniform ones; oracle: planar construction for both distances of distance_to_plane (1 mm + 1e-9 scale) and for membership via the tag. Non-trivial: finite reference distance within 3 thicknesses", 120, gen_planar, check_planar, 100, true, true},
    {"planar_spherical", "slabs and faults on a spherical trench along a meridian or along the equator (radius Earth/Mars/Moon, all three depth methods, either dip side, coordinates in either order), 1..3 segments of 20..100 km (straight or arcs), min depth 0..50 km; 8..30 points per case generated in the vertical plane through a trench point perpendicular to the trench; oracle: planar construction for both distances of distance_to_plane and for membership via the tag, with the radius-scaled allowance 4 d^2/R (d = extent of the construction up to the point). Non-trivial: reference distance within 3 thicknesses", 120, gen_sph, check_sph},
  });
}
