// C16 — the C and C++ wrappers are transparent.
#include "../gen.h"

#include "world_builder/wrapper_c.h"
#include "world_builder/wrapper_cpp.h"

#include <dirent.h>

using namespace vf;
namespace WB = WorldBuilder;

static void list_files(const std::string &dir, const std::string &rel, std::vector<std::string> &out)
{
  DIR *d = opendir(dir.c_str());
  if (!d) return;
  while (dirent *e = readdir(d))
    {
      const std::string n = e->d_name;
      if (n == "." || n == "..") continue;
      const std::string full = dir + "/" + n;
      struct stat sb;
      if (::stat(full.c_str(), &sb) == 0 && S_ISDIR(sb.st_mode)) list_files(full, rel + n + "/", out);
      else out.push_back(rel + n);
    }
  closedir(d);
}

static J gen_case(Chooser &ch)
{
  g::Opt o;
  o.min_features = 1; o.max_features = 4;
  o.operations = true; o.cross_section = ch.chance(70) ? 2 : 0;
  o.random_models = ch.chance(40);
  g::GW w = g::gen_world(ch, o);
  J c = J::obj();
  c["world"] = w.root.dump();
  c["has_section"] = w.root.has("cross section");
  c["sph"] = w.fr.sph; c["R"] = w.fr.R; c["H"] = w.fr.H;
  c["has_output_dir"] = static_cast<int>(ch.range(0, 2)); // 0 = null pointer, 1 = &false, 2 = &true
  c["output_dir"] = ch.pick<std::string>({"<null>", "", "out/", "o/", "deep/er/", "x y/", "pre_", "out/run1_"}); // a plain prefix: "x/" is a directory, "pre_" a file name prefix
  c["seed"] = ch.pick<double>({1.0, 0.0, 12345.0, 8589934599.0, 4294967295.0});
  J qs = g::gen_queries(ch, w, static_cast<int>(ch.range(1, 6)), 85);
  for (auto &q : qs.a)
    {
      const double depth = q.at("depth").num();
      if (w.fr.sph) { const double th = ch.real(-5, 20) * DEG, rr = w.fr.R - depth; q["p2"] = jp(rr * std::cos(th), rr * std::sin(th)); }
      else q["p2"] = jp(ch.real(-300e3, 900e3), w.fr.H - depth);
    }
  c["queries"] = qs;
  c["props"] = g::gen_props(ch, 6);
  // further property lists used on the same world handle, in this order, after the first one (lists of different lengths:
  // whatever the wrapper keeps between calls must not leak from one request into the next)
  J seq = J::arr();
  const int extra = static_cast<int>(ch.range(0, 3));
  for (int i = 0; i < extra; ++i) seq.push(g::gen_props(ch, i % 2 ? 6 : 2));
  c["props_seq"] = seq;
  return c;
}

static int g_case_counter = 0;

static Result check_case(const J &c)
{
  Result r;
  const std::string base = scratch_dir() + "/c16-" + std::to_string(g_case_counter++ % 4);
  { std::string cmd = "rm -rf '" + base + "' && mkdir -p '" + base + "'"; if (std::system(cmd.c_str())) {} }
  const std::string wbfile = scratch_dir() + "/c16.wb";
  write_file(wbfile, c.at("world").str());
  if (::chdir(base.c_str()) != 0) throw std::runtime_error("chdir failed");
  struct Back { ~Back() { if (::chdir("/")) {} } } back;

  const int hod = static_cast<int>(c.at("has_output_dir").num());
  const bool has = hod == 2;
  const bool t = true, f = false;
  const bool *has_ptr = hod == 0 ? nullptr : (hod == 1 ? &f : &t);
  const std::string od = c.at("output_dir").str();
  const bool od_null = od == "<null>";
  const std::string od_eff = od_null ? "" : od;
  if (od_eff.find('/') != std::string::npos) { std::string cmd = "mkdir -p '" + base + "/" + od_eff.substr(0, od_eff.rfind('/') + 1) + "'"; if (std::system(cmd.c_str())) {} }
  const unsigned long seed = static_cast<unsigned long>(c.at("seed").num());

  void *cw = nullptr;
  create_world(&cw, wbfile.c_str(), has_ptr, od_null ? nullptr : od.c_str(), seed);
  struct Rel { void *p; ~Rel() { if (p) release_world(p); } } rel{cw};
  r.nontrivial = hod != 0 || !od_null || seed != 1;
  r.classes.push_back(std::string("has_output_dir=") + (hod == 0 ? "null" : (hod == 1 ? "false" : "true")));

  // (1) the output directory argument reaches the world: declaration files where requested and nowhere else
  {
    std::vector<std::string> files;
    list_files(base, "", files);
    std::sort(files.begin(), files.end());
    if (!has && !files.empty()) return Result::fail("files-without-flag", "create_world without output-dir flag wrote " + files[0]);
    if (has)
      {
        const std::vector<std::string> want = {"world_builder_declarations.schema.json", "world_builder_declarations.tex", "world_builder_declarations_closed.md", "world_builder_declarations_open.md"};
        std::vector<std::string> expect;
        for (auto &wn : want) expect.push_back(od_eff + wn);
        std::sort(expect.begin(), expect.end());
        if (files != expect)
          {
            std::string s;
            for (auto &x : files) s += x + " ";
            return Result::fail("output-dir-not-honoured", "create_world(has_output_dir=true, output_dir=\"" + od + "\") wrote [" + s + "] relative to the working directory; expected the four declaration files inside \"" + od_eff + "\"");
          }
      }
  }
  // (1b) the C++ wrapper class with the same arguments writes the same files as the native constructor: the path is a plain prefix
  if (has)
    {
      const std::string b2 = base + "-cpp";
      { std::string cmd = "rm -rf '" + b2 + "' && mkdir -p '" + b2 + "'"; if (std::system(cmd.c_str())) {} }
      if (od_eff.find('/') != std::string::npos) { std::string cmd = "mkdir -p '" + b2 + "/" + od_eff.substr(0, od_eff.rfind('/') + 1) + "'"; if (std::system(cmd.c_str())) {} }
      if (::chdir(b2.c_str()) != 0) throw std::runtime_error("chdir failed");
      std::string err;
      try { wrapper_cpp::WorldBuilderWrapper XW(wbfile, true, od_eff, seed); }
      catch (const std::exception &e) { err = e.what(); }
      std::vector<std::string> files;
      list_files(b2, "", files);
      std::sort(files.begin(), files.end());
      if (::chdir(base.c_str()) != 0) throw std::runtime_error("chdir failed");
      const std::vector<std::string> want = {"world_builder_declarations.schema.json", "world_builder_declarations.tex", "world_builder_declarations_closed.md", "world_builder_declarations_open.md"};
      std::vector<std::string> expect;
      for (auto &wn : want) expect.push_back(od_eff + wn);
      std::sort(expect.begin(), expect.end());
      r.classes.push_back("C++ wrapper class with an output path");
      if (!err.empty() || files != expect)
        {
          std::string sfiles;
          for (auto &x : files) sfiles += x + " ";
          return Result::fail("cpp-output-dir-not-honoured", "WorldBuilderWrapper(file, true, \"" + od_eff + "\") " + (err.empty() ? "wrote [" + sfiles + "]" : "threw '" + err.substr(0, 150) + "'") + "; the native constructor writes the four declaration files with that prefix");
        }
    }
  // native world with the same arguments (no output dir: it does not influence answers)
  WB::World N(wbfile, false, "", seed);
  wrapper_cpp::WorldBuilderWrapper X(wbfile, false, "", seed);
  WB::World NX(wbfile, false, "", seed); // receives exactly the calls X receives (random models draw per call)
  std::vector<PropList> lists = {props_from(c.at("props"))};
  if (c.has("props_seq")) for (const auto &e : c.at("props_seq").a) lists.push_back(props_from(e));
  if (lists.size() > 1) r.classes.push_back("several property lists on one handle");
  const bool has_section = c.at("has_section").boolean();
  for (size_t li = 0; li < lists.size(); ++li)
  {
  const PropList &pl = lists[li];
  std::vector<unsigned int> flat;
  for (auto &p : pl) { flat.push_back(p[0]); flat.push_back(p[1]); flat.push_back(p[2]); }
  const unsigned int (*cprops)[3] = reinterpret_cast<const unsigned int (*)[3]>(flat.data());
  const unsigned n_out = N.properties_output_size(pl);
  if (properties_output_size(cw, cprops, static_cast<unsigned>(pl.size())) != n_out)
    return Result::fail("c-output-size", "C properties_output_size differs from native");
  for (const auto &q : c.at("queries").a)
    {
      const auto p = p3(q.at("p"));
      const auto pp = p2(q.at("p2"));
      const double depth = q.at("depth").num();
      // same order of calls on both objects (random models draw from the engine per call)
      std::vector<double> vn = N.properties(p, depth, pl);
      std::vector<double> vc(n_out + 256, -777.0);
      properties_3d(cw, p[0], p[1], p[2], depth, cprops, static_cast<unsigned>(pl.size()), vc.data());
      r.inner++;
      if (r.nontrivial) r.inner_nt++;
      for (unsigned i = 0; i < n_out; ++i)
        if (!same_bits(vn[i], vc[i])) return Result::fail("c-properties-3d", "properties_3d value " + std::to_string(i) + " is " + fmt(vc[i]) + ", native " + fmt(vn[i]) + " for " + c.at("props").dump());
      for (unsigned i = n_out; i < n_out + 256; ++i) if (vc[i] != -777.0) return Result::fail("c-properties-overrun", "properties_3d wrote " + fmt(vc[i]) + " at index " + std::to_string(i) + " of the caller's array although properties_output_size announces " + std::to_string(n_out) + " values for " + c.at(li == 0 ? "props" : "props_seq").dump() + " (request " + std::to_string(li) + " on this handle)");
      double tc = 0, tn = N.temperature(p, depth);
      temperature_3d(cw, p[0], p[1], p[2], depth, &tc);
      if (!same_bits(tc, tn)) return Result::fail("c-temperature-3d", "temperature_3d " + fmt(tc) + " vs native " + fmt(tn));
      const unsigned comp = static_cast<unsigned>(pl[0][1] % 6);
      double cc = 0, cn = N.composition(p, depth, comp);
      composition_3d(cw, p[0], p[1], p[2], depth, comp, &cc);
      if (!same_bits(cc, cn)) return Result::fail("c-composition-3d", "composition_3d " + fmt(cc) + " vs native " + fmt(cn));
      if (!same_bits(X.temperature_3d(p[0], p[1], p[2], depth), NX.temperature(p, depth))) return Result::fail("cpp-temperature-3d", "C++ wrapper temperature_3d differs from native");
      if (!same_bits(X.composition_3d(p[0], p[1], p[2], depth, comp), NX.composition(p, depth, comp))) return Result::fail("cpp-composition-3d", "C++ wrapper composition_3d differs from native");
      if (has_section)
        {
          r.classes.push_back("2D");
          vn = N.properties(pp, depth, pl);
          std::fill(vc.begin(), vc.end(), -777.0);
          properties_2d(cw, pp[0], pp[1], depth, cprops, static_cast<unsigned>(pl.size()), vc.data());
          for (unsigned i = 0; i < n_out; ++i)
            if (!same_bits(vn[i], vc[i])) return Result::fail("c-properties-2d", "properties_2d value " + std::to_string(i) + " is " + fmt(vc[i]) + ", native " + fmt(vn[i]) + " for " + c.at("props").dump());
          for (unsigned i = n_out; i < n_out + 256; ++i) if (vc[i] != -777.0) return Result::fail("c-properties-overrun", "properties_2d wrote " + fmt(vc[i]) + " at index " + std::to_string(i) + " of the caller's array although properties_output_size announces " + std::to_string(n_out) + " values (request " + std::to_string(li) + " on this handle)");
          tn = N.temperature(pp, depth);
          temperature_2d(cw, pp[0], pp[1], depth, &tc);
          if (!same_bits(tc, tn)) return Result::fail("c-temperature-2d", "temperature_2d " + fmt(tc) + " vs native " + fmt(tn));
          cn = N.composition(pp, depth, comp);
          composition_2d(cw, pp[0], pp[1], depth, comp, &cc);
          if (!same_bits(cc, cn)) return Result::fail("c-composition-2d", "composition_2d " + fmt(cc) + " vs native " + fmt(cn));
          if (!same_bits(X.temperature_2d(pp[0], pp[1], depth), NX.temperature(pp, depth))) return Result::fail("cpp-temperature-2d", "C++ wrapper temperature_2d differs from native");
          if (!same_bits(X.composition_2d(pp[0], pp[1], depth, comp), NX.composition(pp, depth, comp))) return Result::fail("cpp-composition-2d", "C++ wrapper composition_2d differs from native");
        }
    }
  }
  // (3) the seed reaches the engine: the first draws of the C world's engine equal those of a native world with that seed
  {
    void *cw2 = nullptr;
    create_world(&cw2, wbfile.c_str(), nullptr, nullptr, seed);
    WB::World N2(wbfile, false, "", seed);
    auto &e1 = reinterpret_cast<WB::World *>(cw2)->get_random_number_engine();
    auto &e2 = N2.get_random_number_engine();
    bool same = true;
    for (int i = 0; i < 5; ++i) if (e1() != e2()) same = false;
    release_world(cw2);
    if (!same) return Result::fail("c-seed", "the random engine of a world made by create_world(seed=" + std::to_string(seed) + ") draws differently from a native world with that seed");
    // and differs from a world with another seed unless the file fixes the seed
    const J root = J::parse(c.at("world").str());
    if (!root.has("random number seed"))
      {
        void *cw3 = nullptr;
        create_world(&cw3, wbfile.c_str(), nullptr, nullptr, seed + 1);
        WB::World N3(wbfile, false, "", seed);
        auto &e3 = reinterpret_cast<WB::World *>(cw3)->get_random_number_engine();
        auto &e4 = N3.get_random_number_engine();
        bool all_same = true;
        for (int i = 0; i < 5; ++i) if (e3() != e4()) all_same = false;
        release_world(cw3);
        if (all_same) return Result::fail("c-seed-ignored", "create_world ignores its seed argument (seed and seed+1 give the same engine state)");
      }
  }
  return r;
}

int main(int argc, char **argv)
{
  return run_main("C16", argc, argv,
  {
    {"wrappers", "worlds (40% with random models) x create_world arguments (output-dir flag null/false/true; output_dir null, empty, relative dirs with trailing slash; seeds 0, 1, 12345, 2^32-1, 2^33+7) x queries x property lists; oracle: native World with the same arguments, bitwise; declaration files listed in a scratch working directory. 1..4 property lists of different lengths used one after the other on the same handle, 256 canary slots behind the announced output size. Every case runs in a fresh process. Non-trivial: non-default create_world arguments", 150, gen_case, check_case, 100, true, true},
  });
}
