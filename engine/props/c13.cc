// C13 — queries on a built world are total and return finite numbers (or throw a standard exception).
#include "../gen.h"

using namespace vf;
namespace WB = WorldBuilder;

// targeted degenerate locations for world w; returns query + its kind
static J degenerate_query(Chooser &ch, const g::GW &w, std::string &kind)
{
  const g::Frame &f = w.fr;
  const g::FM *m = w.feats.empty() ? nullptr : &w.feats[ch.index(w.feats.size())];
  const int k = static_cast<int>(ch.range(0, 12));
  auto depth_of = [&](const g::FM &mm) { return ch.pick<double>({0.0, mm.dmin, mm.dmax, 0.5 * (mm.dmin + mm.dmax), std::nextafter(mm.dmax, 0.0), mm.dmin + 1e-9}); };
  if (m && k == 0 && !m->coords.empty())
    {
      kind = m->line() ? "trench-coordinate" : (m->type == "plume" ? "plume-centre" : "polygon-vertex");
      const auto &v = m->coords[ch.index(m->coords.size())];
      return g::make_query(f, v[0], v[1], depth_of(*m));
    }
  if (m && k == 1 && m->coords.size() >= 2)
    {
      kind = m->line() ? "on-trench-chord" : "polygon-edge";
      const size_t i = ch.index(m->coords.size() - (m->area() ? 0 : 1));
      const auto &a = m->coords[i], &b = m->coords[(i + 1) % m->coords.size()];
      const double s = ch.pick<double>({0.5, 0.25, 0.75, 1.0 / 3.0});
      return g::make_query(f, a[0] + s * (b[0] - a[0]), a[1] + s * (b[1] - a[1]), depth_of(*m));
    }
  if (m && k == 2 && m->line())
    {
      kind = "dip-point";
      return g::make_query(f, m->dip_point[0], m->dip_point[1], depth_of(*m));
    }
  if (m && k == 3 && m->line())
    {
      // roughly the slab tip / the far end of the reach: along the normal towards the dip point, at depth ~ reach*sin(45)
      kind = "slab-tip-region";
      const auto &a = m->coords[0], &b = m->coords[1];
      const double tx = b[0] - a[0], ty = b[1] - a[1], tn = std::sqrt(tx * tx + ty * ty);
      double nx = -ty / tn, ny = tx / tn;
      if ((m->dip_point[0] - a[0]) * nx + (m->dip_point[1] - a[1]) * ny < 0) { nx = -nx; ny = -ny; }
      const double frac = ch.pick<double>({0.5, 0.7071067811865476, 0.9, 1.0});
      const double hor = frac * (m->reach / 1e3) * f.km();
      double la = a[0] + 0.5 * tx + hor * nx, lb = a[1] + 0.5 * ty + hor * ny;
      if (f.sph) lb = std::max(-90.0, std::min(90.0, lb));
      return g::make_query(f, la, lb, m->dmin + std::sqrt(std::max(0.0, 1 - frac * frac)) * m->reach);
    }
  if (m && k == 4 && m->line())
    {
      kind = "directly-below-trench";
      const auto &a = m->coords[ch.index(m->coords.size())];
      return g::make_query(f, a[0], a[1], m->dmin + ch.pick<double>({1.0, 1e3, 50e3, m->reach, 2 * m->reach}));
    }
  if (f.sph && k == 5) { kind = "pole"; return g::make_query(f, ch.pick<double>({0.0, 45.0, 180.0, -123.0}), ch.flip() ? 90.0 : -90.0, ch.pick<double>({0.0, 10e3, 300e3, f.R / 2})); }
  if (f.sph && k == 6) { kind = "dateline"; return g::make_query(f, ch.flip() ? 180.0 : -180.0, m ? m->kernel[1] : ch.real(-80, 80), ch.pick<double>({0.0, 10e3, 100e3, 400e3})); }
  if (f.sph && k == 7)
    {
      kind = "planet-centre";
      J q = J::obj();
      const double tiny = ch.pick<double>({0.0, 1e-300, -1e-300, 1e-160});
      q["p"] = jp(tiny, ch.flip() ? 0.0 : tiny, 0.0); q["depth"] = f.R; q["nat"] = jp(0, 0);
      return q;
    }
  if (k == 8)
    {
      kind = "far-away";
      if (f.sph) return g::make_query(f, ch.real(-180, 180), ch.real(-90, 90), ch.pick<double>({-1e9, f.R - 1.0, 0.999 * f.R}));
      return g::make_query(f, ch.pick<double>({1e9, -1e9, 1e12}), ch.pick<double>({1e9, -1e9, 0.0}), ch.pick<double>({0.0, 100e3}));
    }
  if (!f.sph && k == 9)
    {
      kind = "model-bottom/top";
      const double a = m ? m->kernel[0] : 0, b = m ? m->kernel[1] : 0;
      return g::make_query(f, a, b, ch.pick<double>({f.H, 0.0, f.H - 1e-9, -1.0}));
    }
  if (k == 11)
    {
      // exactly on a mid-oceanic ridge (age zero) of a model that has one
      std::vector<std::array<double, 2>> ridge_pts;
      std::function<void(const J &)> walk = [&](const J &o) {
        if (o.is_obj()) { for (auto &kv : o.o) { if (kv.first == "ridge coordinates") { for (auto &rd : kv.second.a) for (size_t i = 0; i < rd.size(); ++i) { ridge_pts.push_back({{rd[i][0].num(), rd[i][1].num()}}); if (i + 1 < rd.size()) ridge_pts.push_back({{0.5 * (rd[i][0].num() + rd[i + 1][0].num()), 0.5 * (rd[i][1].num() + rd[i + 1][1].num())}}); } } else walk(kv.second); } }
        else if (o.is_arr()) for (auto &e : o.a) walk(e);
      };
      walk(w.root);
      if (!ridge_pts.empty())
        {
          kind = "on-ridge";
          const auto &p = ridge_pts[ch.index(ridge_pts.size())];
          return g::make_query(f, p[0], f.sph ? std::max(-89.0, std::min(89.0, p[1])) : p[1], ch.pick<double>({0.0, 0.0, 1e3, 10e3, 50e3}));
        }
    }
  if (m && k == 10)
    {
      kind = "feature-depth-limits";
      J q = g::gen_query(ch, w, m);
      return g::make_query(f, q.at("nat")[0].num(), q.at("nat")[1].num(), ch.pick<double>({m->dmin, m->dmax, 0.0}));
    }
  kind = "aimed-interior";
  return g::gen_query(ch, w, m);
}

static J gen_total(Chooser &ch)
{
  g::Opt o;
  o.min_features = 1; o.max_features = 4;
  o.operations = true; o.model_ranges = true; o.global_constants = ch.chance(30); o.force_surface = true;
  o.water = true; o.depth_surfaces = true; o.cross_section = 1;
  g::GW w = g::gen_world(ch, o);
  J c = J::obj();
  c["world"] = w.root.dump();
  J qs = J::arr();
  const int n = static_cast<int>(ch.range(4, 30));
  for (int i = 0; i < n; ++i)
    {
      std::string kind;
      J q = degenerate_query(ch, w, kind);
      q["kind"] = kind;
      // the 2D interface: the same place expressed along the cross section, plus the section's own degenerate places (its two
      // defining points, the origin side, far beyond its end)
      if (w.root.has("cross section") && ch.chance(40))
        {
          const J &cs = w.root.at("cross section");
          const double ax = cs[0][0].num(), ay = cs[0][1].num(), bx = cs[1][0].num(), by = cs[1][1].num();
          const double un = std::sqrt((bx - ax) * (bx - ax) + (by - ay) * (by - ay));
          double sx = ((q.at("nat")[0].num() - ax) * (bx - ax) + (q.at("nat")[1].num() - ay) * (by - ay)) / un;
          const int k2 = static_cast<int>(ch.range(0, 5));
          if (k2 == 1) sx = 0; else if (k2 == 2) sx = un; else if (k2 == 3) sx = -sx; else if (k2 == 4) sx = ch.pick<double>({1e9, -1e9, 1e-300});
          const double depth = q.at("depth").num();
          if (w.fr.sph) { const double rr = w.fr.R - depth; q["p2"] = jp(rr * std::cos(sx * DEG), rr * std::sin(sx * DEG)); }
          else q["p2"] = jp(sx, w.fr.H - depth);
          q["kind"] = kind + " (2D)";
        }
      qs.push(q);
    }
  c["queries"] = qs;
  c["props"] = g::gen_props(ch, 7);
  return c;
}

static Result check_total(const J &c)
{
  Result r;
  auto W = make_world(c.at("world").str());
  const PropList pl = props_from(c.at("props"));
  const PropList all = {{{1, 0, 0}}, {{2, 0, 0}}, {{2, 3, 0}}, {{3, 0, 2}}, {{3, 1, 1}}, {{4, 0, 0}}, {{5, 0, 0}}};
  for (const auto &q : c.at("queries").a)
    {
      const std::string kind = q.at("kind").str();
      r.classes.push_back(kind);
      for (const PropList *l : {&pl, &all})
        {
          r.inner++;
          if (kind.rfind("aimed-interior", 0) != 0 || q.has("p2")) { r.inner_nt++; r.nontrivial = true; }
          std::vector<double> out;
          try { out = q.has("p2") ? W->properties(p2(q.at("p2")), q.at("depth").num(), *l) : W->properties(p3(q.at("p")), q.at("depth").num(), *l); }
          catch (const std::exception &e)
            {
              if (std::string(e.what()).empty()) return Result::fail("empty-exception-message", "query threw an exception without message");
              r.classes.push_back("threw:" + kind);
              { std::string w = e.what(); const size_t at = w.find(" at line "); const size_t c2 = at == std::string::npos ? std::string::npos : w.find(':', at); r.classes.push_back("exception text: " + (c2 == std::string::npos ? w.substr(0, 100) : w.substr(c2 + 1, 110))); }
              continue;
            }
          for (size_t i = 0; i < out.size(); ++i)
            if (!std::isfinite(out[i]))
              {
                // which property kind?
                size_t pos = 0; unsigned pk = 0;
                for (auto &pr : *l) { if (i >= pos && i < pos + prop_width(pr)) pk = pr[0]; pos += prop_width(pr); }
                return Result::fail("non-finite-" + std::string(pk == 1 ? "temperature" : pk == 2 ? "composition" : pk == 3 ? "grains" : pk == 5 ? "velocity" : "tag") + "@" + kind,
                                    "query (" + kind + ") returned " + fmt(out[i]) + " in slot " + std::to_string(i) + "; query " + q.dump());
              }
        }
    }
  return r;
}

// ---------------------------------------------------------------- targeted degenerate configurations
// (1) an oceanic plate whose ridge runs through the plate: points exactly on the ridge have age zero
// (2) an area feature whose point-wise max depth pinches out to its min depth along an edge: zero thickness there
static J gen_special(Chooser &ch)
{
  g::Opt o;
  g::Frame fr = g::gen_frame(ch, o);
  J root = J::obj();
  g::frame_to_json(fr, root);
  if (ch.chance(30)) root["force surface temperature"] = true;
  g::Opt none; none.grains = false; none.velocity = false; none.custom_tags = false;
  g::FM m;
  const int special = static_cast<int>(ch.range(0, 4));
  const bool ridge_case = special == 0;
  J c = J::obj();
  J qs = J::arr();
  const std::array<double, 2> ctr = g::gen_centre(ch, fr);
  if (special == 4)
    {
      // (5) a slab or fault whose sections carry the same grain orientation written in different ways (Euler angles a full turn
      // apart, 180 against -180, (a,0,c) against (a+c,0,0)): between the coordinates the orientations are interpolated, and two
      // descriptions of one rotation may arrive there as q and -q
      g::Frame fc; fc.sph = false; fc.H = 1000e3;
      J rootc = J::obj();
      g::frame_to_json(fc, rootc);
      const bool fault = ch.flip();
      const double x0 = ch.lattice(-500e3, 500e3, 50e3), y0 = ch.lattice(-500e3, 500e3, 50e3);
      const int nc = static_cast<int>(ch.range(2, 3));
      J feat = J::obj();
      feat["model"] = fault ? "fault" : "subducting plate"; feat["name"] = "line";
      J co = J::arr();
      for (int i = 0; i < nc; ++i) co.push(jp(x0 + (i == 1 && nc == 3 ? 40e3 : 0.0), y0 + 400e3 * i));
      feat["coordinates"] = co;
      feat["dip point"] = jp(x0 + 5e6, y0);
      const double L = ch.lattice(150e3, 400e3, 50e3), thick = ch.lattice(60e3, 150e3, 10e3), dip = ch.lattice(30, 90, 15);
      auto segs = [&]() { J sg = J::obj(); sg["length"] = L; sg["thickness"] = J::arr({J(thick)}); sg["angle"] = J::arr({J(dip)}); return J::arr({sg}); };
      feat["segments"] = segs();
      const double a = ch.lattice(-180, 180, 15), b = ch.chance(50) ? 0.0 : ch.lattice(0, 180, 15), cc = ch.lattice(-180, 180, 15);
      J sections = J::arr();
      for (int i = 0; i < nc; ++i)
        {
          J e;
          const int how = static_cast<int>(ch.range(0, 4));
          if (how == 0) e = jp(a, b, cc);
          else if (how == 1) e = jp(a - 360, b, cc);
          else if (how == 2) e = jp(a, b, cc + 360);
          else if (how == 3) e = jp(a + 360, b, cc - 360);
          else e = b == 0 ? jp(a + cc, 0.0, 0.0) : jp(a, b, cc);
          J gm = J::obj();
          gm["model"] = "uniform"; gm["compositions"] = J::arr({J(0)}); gm["Euler angles z-x-z"] = J::arr({e}); gm["grain sizes"] = J::arr({J(0.5)});
          J sc = J::obj();
          sc["coordinate"] = i; sc["segments"] = segs(); sc["grains models"] = J::arr({gm});
          sections.push(sc);
        }
      feat["sections"] = sections;
      rootc["features"] = J::arr({feat});
      const double ar = dip * DEG;
      for (int i = 0; i < 16; ++i)
        {
          const double al = ch.real(0.05, 0.95) * L, from = (fault ? ch.real(-0.4, 0.4) : ch.real(0.05, 0.9)) * thick;
          J q = g::make_query(fc, x0 + al * std::cos(ar) - from * std::sin(ar), y0 + ch.pick<double>({0.0, 1.0, 100e3, 200e3, 390e3, 400e3, 600e3}) * (nc == 3 ? 1.0 : 0.5), std::max(0.0, al * std::sin(ar) + from * std::cos(ar)));
          q["kind"] = "between-sections-with-equal-orientations";
          qs.push(q);
        }
      c["world"] = rootc.dump();
      c["queries"] = qs;
      J props = J::arr({jp(3, 0, 1), jp(3, 0, 3), jp(1, 0, 0), jp(4, 0, 0)});
      c["props"] = props;
      return c;
    }
  if (special == 3)
    {
      // (4) a mass conserving slab whose options sit on the edge of their range - no taper at the tip ('taper distance' 0), no extra
      // fore-arc cooling ('forearc cooling factor' 0 or 1), coupling at the surface - probed exactly on the tip line of a vertical slab
      // (distance along the slab == its length), in the fore-arc wedge above a dipping slab next to the trench, and on the trench line
      g::Frame fc; fc.sph = false; fc.H = ch.lattice(800e3, 1500e3, 100e3);
      J rootc = J::obj();
      g::frame_to_json(fc, rootc);
      const bool vertical = ch.chance(45);
      const double x0 = ch.lattice(-500e3, 500e3, 50e3), y0 = ch.lattice(-500e3, 500e3, 50e3), L = ch.lattice(200e3, 500e3, 50e3), thick = ch.lattice(60e3, 150e3, 10e3);
      const double dip = vertical ? 90.0 : ch.lattice(25, 70, 5);
      J feat = J::obj();
      feat["model"] = "subducting plate"; feat["name"] = "slab";
      feat["coordinates"] = J::arr({jp(x0, y0 - 800e3), jp(x0, y0 + 800e3)});
      feat["dip point"] = jp(x0 + 5e6, y0);
      J seg = J::obj();
      seg["length"] = L; seg["thickness"] = J::arr({J(thick)}); seg["angle"] = J::arr({J(dip)});
      feat["segments"] = J::arr({seg});
      J t = J::obj();
      t["model"] = "mass conserving";
      t["ridge coordinates"] = J::arr({J::arr({jp(x0 - ch.lattice(300e3, 4000e3, 100e3), y0 - 3000e3), jp(x0 - ch.lattice(300e3, 4000e3, 100e3), y0 + 3000e3)})});
      t["spreading velocity"] = ch.lattice(0.02, 0.1, 0.01);
      t["subducting velocity"] = ch.lattice(0.02, 0.1, 0.01);
      t["coupling depth"] = ch.pick<double>({0.0, 50e3, 80e3, 100e3});
      t["forearc cooling factor"] = ch.pick<double>({0.0, 0.0, 1.0, 10.0});
      t["taper distance"] = ch.pick<double>({0.0, 0.0, 100e3});
      t["min distance slab top"] = -ch.lattice(50e3, 200e3, 50e3);
      t["max distance slab top"] = ch.lattice(100e3, 200e3, 50e3);
      // 70%: the slab's extent reaches as far above its top as the model does (a negative top truncation), so that the wedge above
      // the slab is painted by the model
      if (ch.chance(70)) { J &sg = feat["segments"][0]; sg["top truncation"] = J::arr({t["min distance slab top"]}); }
      t["reference model name"] = ch.pick<std::string>({"half space model", "plate model"});
      if (ch.flip()) { t["apply spline"] = true; t["number of points in spline"] = static_cast<int>(ch.range(3, 8)); }
      feat["temperature models"] = J::arr({t});
      rootc["features"] = J::arr({feat});
      const double a = dip * DEG;
      for (int i = 0; i < 24; ++i)
        {
          const int w = static_cast<int>(ch.range(0, 3));
          const double y = y0 + ch.lattice(-600e3, 600e3, 50e3);
          J q;
          if (w == 0 && vertical)
            { // the tip line: depth == length, anywhere across the thickness and a little to either side of it
              q = g::make_query(fc, x0 + ch.lattice(-1.5, 1.5, 0.125) * thick, y, L);
              q["kind"] = "slab-tip-line";
            }
          else if (w == 1)
            { // the wedge above the slab next to the trench: a few km to a few hundred km from the trench, above the slab top
              const double hx = ch.pick<double>({1e3, 5e3, 20e3, 60e3, 150e3});
              const double top = vertical ? L : hx * std::tan(a); // depth of the slab top below this place (vertical slab: none)
              q = g::make_query(fc, x0 + hx, y, ch.pick<double>({0.0, 1.0, 0.25, 0.5, 0.9, 0.999}) * std::min(top, 200e3));
              q["kind"] = "fore-arc-above-slab";
            }
          else if (w == 2)
            { // on the trench line at the surface and below it
              q = g::make_query(fc, x0, y, ch.pick<double>({0.0, 1.0, 1e3, 30e3}));
              q["kind"] = "on-trench-line";
            }
          else
            { // inside the slab, anywhere
              // `al` along the top surface, `fromtop` below it (the body lies on the lower side: towards (-sin a, +cos a) in (x, depth))
              const double al = ch.real(0, 1) * L, fromtop = ch.real(0, 1) * thick;
              q = g::make_query(fc, x0 + al * std::cos(a) - fromtop * std::sin(a), y, al * std::sin(a) + fromtop * std::cos(a));
              q["kind"] = "inside-slab";
            }
          qs.push(q);
        }
      c["world"] = rootc.dump();
      c["queries"] = qs;
      c["props"] = g::gen_props(ch, 5);
      return c;
    }
  if (special == 2)
    {
      // (3) a plume with a pointed top (semi-major axis 0 at its first cross section, min depth above it) or a pointed bottom, probed
      // exactly on its axis: every relative distance there is 0/0
      J feat = J::obj();
      feat["model"] = "plume"; feat["name"] = "plume";
      const int n = static_cast<int>(ch.range(2, 4));
      J co = J::arr(), de = J::arr(), ax = J::arr(), ec = J::arr(), ro = J::arr();
      const double d0 = ch.lattice(100e3, 300e3, 50e3);
      const bool top_point = ch.chance(70), bottom_point = ch.chance(40);
      for (int i = 0; i < n; ++i)
        {
          co.push(jp(ctr[0] + (fr.sph ? 0.25 : 20e3) * i * (ch.flip() ? 1 : 0), ctr[1]));
          de.push(J(d0 + 150e3 * i));
          ax.push(J((i == 0 && top_point) || (i == n - 1 && bottom_point) ? 0.0 : (fr.sph ? ch.lattice(0.5, 3, 0.25) : ch.lattice(50e3, 300e3, 10e3))));
          ec.push(J(ch.lattice(0, 0.875, 0.125)));
          ro.push(J(ch.lattice(0, 150, 15)));
        }
      feat["coordinates"] = co; feat["cross section depths"] = de; feat["semi-major axis"] = ax; feat["eccentricity"] = ec; feat["rotation angles"] = ro;
      feat["min depth"] = d0 - ch.lattice(20e3, 90e3, 10e3);
      feat["max depth"] = d0 + 150e3 * (n - 1) + (ch.flip() ? 0.0 : 100e3);
      J t = J::obj();
      if (ch.chance(70))
        {
          t["model"] = "gaussian";
          t["depths"] = J::arr({J(d0 - 50e3), J(d0 + 150e3 * (n - 1))});
          t["centerline temperatures"] = J::arr({J(ch.lattice(1600, 2000, 50)), J(ch.lattice(1600, 2000, 50))});
          t["gaussian sigmas"] = J::arr({J(ch.lattice(0.1, 0.5, 0.1)), J(ch.lattice(0.1, 0.5, 0.1))});
        }
      else { t["model"] = "uniform"; t["temperature"] = 1700.0; }
      feat["temperature models"] = J::arr({t});
      J cm = J::obj(); cm["model"] = "uniform"; cm["compositions"] = J::arr({J(0)});
      feat["composition models"] = J::arr({cm});
      root["features"] = J::arr({feat});
      for (int i = 0; i < 14; ++i)
        {
          const size_t k = ch.index(co.size());
          const double depth = ch.chance(50) ? ch.real(feat["min depth"].num(), feat["max depth"].num()) : ch.pick<double>({feat["min depth"].num(), d0, d0 - 1.0, d0 - 25e3, d0 + 1.0, feat["max depth"].num(), d0 + 150e3 * (n - 1)});
          J q = g::make_query(fr, co[k][0].num(), co[k][1].num(), depth);
          q["kind"] = "on-plume-axis";
          qs.push(q);
        }
      c["world"] = root.dump();
      c["queries"] = qs;
      c["props"] = g::gen_props(ch, 5);
      return c;
    }
  if (ridge_case)
    {
      J feat = g::area_feature(ch, fr, none, "oceanic plate", ctr, 0, m);
      feat.erase("temperature models"); feat.erase("composition models");
      m.dmin = 0; feat["min depth"] = 0.0;
      J t = J::obj();
      t["model"] = ch.pick<std::string>({"half space model", "plate model"});
      t["max depth"] = m.dmax;
      t["spreading velocity"] = ch.real(0.01, 0.15);
      // through the kernel of the (star-shaped) polygon, any azimuth
      const double az = ch.real(0, PI), ext = fr.sph ? 25.0 : 2500e3;
      std::array<double, 2> a{{ctr[0] - ext * std::cos(az), ctr[1] - ext * std::sin(az)}}, b{{ctr[0] + ext * std::cos(az), ctr[1] + ext * std::sin(az)}};
      if (fr.sph) { a[1] = std::max(-85.0, std::min(85.0, a[1])); b[1] = std::max(-85.0, std::min(85.0, b[1])); }
      t["ridge coordinates"] = J::arr({J::arr({jp(a[0], a[1]), jp(ctr[0], ctr[1]), jp(b[0], b[1])})});
      if (ch.flip()) t["bottom temperature"] = ch.lattice(1400, 1800, 50);
      feat["temperature models"] = J::arr({t});
      root["features"] = J::arr({feat});
      for (int i = 0; i < 12; ++i)
        {
          const double s = ch.pick<double>({0.0, 0.0, 0.01, -0.01, 0.1, -0.2});
          J q = g::make_query(fr, ctr[0] + s * (b[0] - ctr[0]), ctr[1] + s * (b[1] - ctr[1]), ch.pick<double>({0.0, 0.0, 1.0, 5e3, m.dmax}));
          q["kind"] = "on-ridge-inside-plate";
          qs.push(q);
        }
    }
  else
    {
      const std::string type = ch.pick<std::string>({"continental plate", "oceanic plate", "mantle layer"});
      J feat = g::area_feature(ch, fr, none, type, ctr, 0, m);
      feat.erase("temperature models"); feat.erase("composition models");
      feat["min depth"] = m.dmin;
      // max depth: the bare value, and the first two corners pinched to the min depth (zero thickness along that edge)
      J surf = J::arr();
      surf.push(J::arr({J(m.dmax)}));
      size_t i0 = 0;
      while (i0 + 1 < m.coords.size() && (m.coords[i0][0] == 0 || m.coords[i0][1] == 0 || m.coords[i0 + 1][0] == 0 || m.coords[i0 + 1][1] == 0)) ++i0;
      surf.push(J::arr({J(m.dmin), J::arr({jp(m.coords[i0][0], m.coords[i0][1]), jp(m.coords[(i0 + 1) % m.coords.size()][0], m.coords[(i0 + 1) % m.coords.size()][1])})}));
      feat["max depth"] = surf;
      J t = J::obj();
      t["model"] = "linear"; t["max depth"] = ch.flip() ? J(m.dmax) : surf;
      t["top temperature"] = ch.lattice(273, 600, 25); t["bottom temperature"] = ch.chance(30) ? -1.0 : ch.lattice(900, 1700, 50);
      feat["temperature models"] = J::arr({t});
      root["features"] = J::arr({feat});
      const auto &v0 = m.coords[i0], &v1 = m.coords[(i0 + 1) % m.coords.size()];
      for (int i = 0; i < 12; ++i)
        {
          const double s = ch.pick<double>({0.0, 1.0, 0.5, 0.25, 0.75});
          const double tt = ch.pick<double>({1.0, 1.0, 0.999999, 0.9});
          const double ex = v0[0] + s * (v1[0] - v0[0]), ey = v0[1] + s * (v1[1] - v0[1]);
          J q = g::make_query(fr, ctr[0] + tt * (ex - ctr[0]), ctr[1] + tt * (ey - ctr[1]), ch.pick<double>({m.dmin, m.dmin, m.dmin + 1e-3, m.dmax}));
          q["kind"] = "pinched-out-edge";
          qs.push(q);
        }
    }
  c["world"] = root.dump();
  c["queries"] = qs;
  c["props"] = g::gen_props(ch, 5);
  return c;
}

int main(int argc, char **argv)
{
  return run_main("C13", argc, argv,
  {
    {"total_finite", "worlds with 1..4 features of every type, all deterministic models incl. cooling models, operations, ranges (physical parameter domain of DESIGN section 3) x 4..30 queries at degenerate locations (polygon vertex/edge, trench coordinate/chord, dip point, slab tip region, below trench, poles, +-180, planet centre incl. |p|=1e-300, far away, model bottom, feature depth limits) x the generated list and a list with every property kind; each case runs in its own process so a crash is a failure of the case. Non-trivial: degenerate kinds", 150, gen_total, check_total, 100, true, true},
    {"special_configurations", "slab or fault whose sections carry one grain orientation written in different ways (Euler angles a full turn apart, (a,0,c) against (a+c,0,0)), probed between the coordinates; mass conserving slab with options on the edge of their range (taper distance 0, forearc cooling factor 0 / 1 / 10, coupling depth 0) probed on the tip line of a vertical slab, in the wedge above the slab next to the trench, on the trench line and inside; oceanic plate with a half-space / plate model whose ridge runs through the plate, probed exactly on the ridge at depth 0 and below (age zero); area feature whose point-wise max depth pinches out to the min depth along one edge, with a linear model, probed on that edge and its end points at exactly that depth (zero thickness). Same oracle: finite values or a std::exception; plume with a pointed top or bottom (semi-major axis 0 at its first / last cross section, min depth above the first section) probed exactly on its axis at the section depths, between and beyond them", 100, gen_special, check_total, 100, true, true},
  });
}
