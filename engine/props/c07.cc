// C07 — acceleration shortcuts never change an answer.
#include "../gen.h"
#include "../ref_geometry.h"

#include "world_builder/objects/surface.h"

namespace WorldBuilder { namespace Verif { extern bool disable_culling; } } // GWB_VERIF hook (see MANIFEST.hooks)

using namespace vf;
namespace WB = WorldBuilder;

// ---------------------------------------------------------------- slabs / faults: culled vs un-culled world
static J gen_culling(Chooser &ch)
{
  g::Opt o;
  o.min_features = 1; o.max_features = 2;
  o.area = false; o.plume = false; o.line = true;
  o.operations = false; o.cooling_models = false; o.custom_tags = false;
  g::GW w = g::gen_world(ch, o);
  // a targeted share: long, shallowly dipping slab on a north-south trench that spans many degrees of latitude
  // (the longitude extent of a member then differs most from what the trench coordinates alone suggest)
  const bool shallow_ns = w.fr.sph && ch.chance(35);
  bool near_pole_end = false;
  if (shallow_ns)
    {
      J &f = w.root["features"][0];
      const double lon0 = ch.lattice(-150, 150, 0.25), lat0 = ch.pick<double>({45.0, 50.0, -50.0, 55.0, -60.0, 62.0, -45.0, -55.0});
      // 30%: the trench runs on to within 1.5..4 degrees of the pole (the box's longitude buffer is scaled with 1/cos of a trench latitude)
      near_pole_end = ch.chance(30);
      const double span = (near_pole_end ? (ch.lattice(86, 88.5, 0.25) - std::fabs(lat0)) : ch.lattice(10, 25, 0.25)) * (lat0 > 0 ? 1 : -1);
      f["coordinates"] = J::arr({jp(lon0, lat0), jp(lon0 + ch.lattice(-1, 1, 0.25), lat0 + 0.5 * span), jp(lon0, lat0 + span)});
      f["dip point"] = jp(lon0 + (ch.flip() ? 40.0 : -40.0), lat0 + 0.5 * span);
      const double dip = ch.lattice(8, 25, 1);
      J seg = J::obj();
      seg["length"] = (ch.chance(40) ? ch.lattice(50e3, 200e3, 10e3) : ch.lattice(200e3, 1000e3, 50e3)) * (w.fr.R / 6371e3);
      seg["thickness"] = J::arr({J(ch.lattice(40e3, 80e3, 10e3))});
      seg["angle"] = J::arr({J(dip)});
      f["segments"] = J::arr({seg});
      f.erase("sections");
      f.erase("min depth");
      w.feats[0].dmin = 0;
      w.feats[0].reach = seg["length"].num() + seg["thickness"][0].num();
    }
  // a targeted share: a short slab / fault whose last segment thickens downwards: its deepest and farthest members are reached
  // through the bottom thickness only, which the length + thickness bounds have to allow for
  const bool thickening = !shallow_ns && ch.chance(20);
  if (thickening)
    {
      J &f = w.root["features"][0];
      J seg = J::obj();
      seg["length"] = ch.lattice(100e3, 250e3, 10e3) * (w.fr.sph ? w.fr.R / 6371e3 : 1.0);
      seg["thickness"] = J::arr({J(ch.lattice(30e3, 60e3, 10e3)), J(ch.lattice(150e3, 300e3, 10e3))});
      seg["angle"] = J::arr({J(ch.lattice(25, 65, 5))});
      f["segments"] = J::arr({seg});
      f.erase("sections");
      f.erase("min depth");
      f.erase("max depth");
      w.feats[0].dmin = 0;
      w.feats[0].reach = seg["length"].num() + seg["thickness"][1].num();
    }
  // a targeted share: an east-west trench close to a pole whose shallow slab dips poleward, so that the member reaches (and passes)
  // the pole, where a degree of longitude is arbitrarily short
  const bool polar = w.fr.sph && !shallow_ns && !thickening && ch.chance(20);
  if (polar)
    {
      J &f = w.root["features"][0];
      const double sgn = ch.flip() ? 1.0 : -1.0;
      const double lon0 = ch.lattice(-150, 120, 0.25), lat0 = sgn * ch.pick<double>({78.0, 80.0, 82.0, 84.0}), dl = ch.lattice(10, 30, 0.25);
      f["coordinates"] = J::arr({jp(lon0, lat0), jp(lon0 + 0.5 * dl, lat0 + ch.lattice(-1, 1, 0.25)), jp(lon0 + dl, lat0)});
      f["dip point"] = jp(lon0 + 0.5 * dl, sgn * 89.5);
      J seg = J::obj();
      seg["length"] = ch.lattice(500e3, 1000e3, 50e3) * (w.fr.R / 6371e3);
      seg["thickness"] = J::arr({J(ch.lattice(40e3, 80e3, 10e3))});
      seg["angle"] = J::arr({J(ch.lattice(8, 25, 1))});
      f["segments"] = J::arr({seg});
      f.erase("sections");
      f.erase("min depth");
      w.feats[0].dmin = 0;
      w.feats[0].reach = seg["length"].num() + seg["thickness"][0].num();
    }
  // stress the bounds: high latitudes, trenches next to +-180, deep starts, shallow dips
  if (w.fr.sph && !shallow_ns && !polar && ch.chance(50))
    for (auto &f : w.root["features"].a)
      if (ch.flip())
        {
          const double lat_shift = ch.pick<double>({60.0, 70.0, -65.0, 78.0});
          const double dlat = lat_shift - f["coordinates"][0][1].num();
          bool ok = true;
          for (auto &p : f["coordinates"].a) if (std::fabs(p[1].num() + dlat) > 86) ok = false;
          if (ok) { for (auto &p : f["coordinates"].a) p[1] = J(p[1].num() + dlat); f["dip point"][1] = J(std::max(-89.0, std::min(89.0, f["dip point"][1].num() + dlat))); }
        }
  J c = J::obj();
  // refresh metadata from the (possibly shifted) json
  for (size_t i = 0; i < w.feats.size(); ++i)
    {
      w.feats[i].coords.clear();
      for (auto &p : w.root["features"][i]["coordinates"].a) w.feats[i].coords.push_back({{p[0].num(), p[1].num()}});
      w.feats[i].kernel = w.feats[i].coords[0];
      w.feats[i].dip_point = {{w.root["features"][i]["dip point"][0].num(), w.root["features"][i]["dip point"][1].num()}};
    }
  c["world"] = w.root.dump();
  J qs = J::arr();
  const int n = static_cast<int>(ch.range(20, 80));
  const double km = w.fr.km();
  for (int i = 0; i < n; ++i)
    {
      const g::FM &m = w.feats[ch.index(w.feats.size())];
      if (polar && &m == &w.feats[0] && ch.chance(70))
        {
          // from a trench point along the meridian towards and across the pole, by most of the member's horizontal extent, a little
          // below the depth the surface has there; built in cartesian coordinates (longitude / latitude arithmetic fails at the pole)
          const J &f = w.root.at("features")[0];
          const double dip = f.at("segments")[0].at("angle")[0].num() * DEG;
          const double along = ch.real(0.3, 1.0) * (m.reach - 40e3), dep = std::min(0.9 * w.fr.R, along * std::sin(dip) + ch.real(2e3, 35e3));
          const double t = ch.real(0, 1);
          const double lon = (m.coords[0][0] + t * (m.coords.back()[0] - m.coords[0][0])) * DEG, lat = m.coords[0][1] * DEG;
          const double th = lat + (lat > 0 ? 1 : -1) * along * std::cos(dip) / (w.fr.R - dep); // may pass +-pi/2: the far side of the pole
          const double rr = w.fr.R - dep;
          const double X = rr * std::cos(th) * std::cos(lon), Y = rr * std::cos(th) * std::sin(lon), Z = rr * std::sin(th);
          qs.push(g::make_query(w.fr, std::atan2(Y, X) / DEG, std::asin(Z / rr) / DEG, dep));
          continue;
        }
      if (ch.chance(30)) { qs.push(g::gen_query(ch, w, &m)); continue; }
      if (ch.chance(45))
        {
          // near the far end of the member: from a trench point go towards the dip-point side by most of the
          // horizontal extent of the surface, at the depth the surface has there (estimated with the first dip)
          const J &f = w.root.at("features")[static_cast<size_t>(&m - &w.feats[0])];
          const double dip = f.at("segments")[0].at("angle")[0].num() * DEG;
          double frac = ch.real(0.55, 1.0), along = frac * (m.reach - 40e3);
          double hor = along * std::cos(dip), dep = m.dmin + along * std::sin(dip) + ch.real(5e3, 35e3);
          if (thickening && &m == &w.feats[0])
            {
              // slab coordinates: `along` the surface (of its length), `from` it by a share of the local thickness, on the lower side
              const double L = f.at("segments")[0].at("length").num(), t0 = f.at("segments")[0].at("thickness")[0].num(), t1 = f.at("segments")[0].at("thickness")[1].num();
              const bool fault = f.at("model").str() == "fault";
              along = ch.real(0.7, 0.999) * L;
              const double from = ch.real(0.5, 0.98) * (t0 + along / L * (t1 - t0)) * (fault ? 0.5 : 1.0);
              hor = along * std::cos(dip) - from * std::sin(dip);
              dep = along * std::sin(dip) + from * std::cos(dip);
              if (ch.flip() && fault) { hor = along * std::cos(dip) + from * std::sin(dip); dep = along * std::sin(dip) - from * std::cos(dip); }
            }
          size_t k = ch.index(m.coords.size() - 1);
          double t = ch.real(0, 1);
          if (near_pole_end && &m == &w.feats[0] && ch.chance(60)) { k = m.coords.size() - 2; t = ch.real(0.9, 1.0); } // next to the polar end of the trench
          const double px = m.coords[k][0] + t * (m.coords[k + 1][0] - m.coords[k][0]), py = m.coords[k][1] + t * (m.coords[k + 1][1] - m.coords[k][1]);
          const double tx = m.coords[k + 1][0] - m.coords[k][0], ty = m.coords[k + 1][1] - m.coords[k][1], tn = std::sqrt(tx * tx + ty * ty);
          double nx = -ty / tn, ny = tx / tn;
          if ((m.dip_point[0] - px) * nx + (m.dip_point[1] - py) * ny < 0) { nx = -nx; ny = -ny; }
          double a, b;
          if (w.fr.sph)
            {
              const double ang = hor / std::max(1.0, w.fr.R - dep) / DEG; // degrees of arc at the depth of the point
              b = std::max(-89.5, std::min(89.5, py + ang * ny));
              a = px + ang * nx / std::max(0.05, std::cos(b * DEG));
            }
          else { a = px + hor * nx; b = py + hor * ny; }
          qs.push(g::make_query(w.fr, a, b, dep));
          continue;
        }
      // rim of the region a member can occupy: any direction from a trench point, 0.6 .. 1.3 reaches away, any depth down to min depth + 1.2 reach
      const size_t k = ch.index(m.coords.size());
      const double ang = ch.real(0, 2 * PI), rad = ch.real(0.5, 1.3) * (m.reach / 1e3) * km;
      double a = m.coords[k][0] + rad * std::cos(ang) / (w.fr.sph ? std::max(0.05, std::cos(m.coords[k][1] * DEG)) : 1.0), b = m.coords[k][1] + rad * std::sin(ang);
      if (w.fr.sph) b = std::max(-89.5, std::min(89.5, b));
      qs.push(g::make_query(w.fr, a, b, m.dmin + ch.real(0, 1.2) * m.reach));
    }
  c["queries"] = qs;
  return c;
}

static Result check_culling(const J &c)
{
  Result r;
  WB::Verif::disable_culling = false;
  auto A = make_world(c.at("world").str(), 1, "culled");
  WB::Verif::disable_culling = true;
  auto B = make_world(c.at("world").str(), 1, "unculled");
  WB::Verif::disable_culling = false;
  const PropList all = {{{1, 0, 0}}, {{2, 0, 0}}, {{2, 1, 0}}, {{2, 2, 0}}, {{3, 0, 1}}, {{5, 0, 0}}, {{4, 0, 0}}};
  const J root = J::parse(c.at("world").str());
  const bool sph = root.at("coordinate system").at("model").str() == "spherical";
  for (const auto &q : c.at("queries").a)
    {
      std::vector<double> a, b;
      bool ta = false, tb = false;
      try { a = A->properties(p3(q.at("p")), q.at("depth").num(), all); } catch (const std::exception &) { ta = true; }
      try { b = B->properties(p3(q.at("p")), q.at("depth").num(), all); } catch (const std::exception &) { tb = true; }
      r.inner++;
      if (ta || tb)
        {
          if (ta != tb) return Result::fail("culling-exception", std::string("with shortcuts ") + (ta ? "the query throws" : "the query answers") + ", without them it " + (tb ? "throws" : "answers") + "; query " + q.dump());
          continue;
        }
      if (b.back() != -1) { r.nontrivial = true; r.inner_nt++; r.classes.push_back(sph ? "inside (spherical)" : "inside (cartesian)"); if (sph && std::fabs(q.at("nat")[1].num()) > 85) r.classes.push_back("inside, within 5 degrees of a pole"); }
      for (size_t i = 0; i < a.size(); ++i)
        if (!same_bits(a[i], b[i]) && !(std::isnan(a[i]) && std::isnan(b[i])))
          return Result::fail(a.back() == -1 && b.back() != -1 ? (sph ? "culled-member-spherical" : "culled-member-cartesian") : "culling-changes-value",
                              "with the shortcuts value " + std::to_string(i) + " is " + fmt(a[i]) + " (tag " + fmt(a.back()) + "), with infinite bounds it is " + fmt(b[i]) + " (tag " + fmt(b.back()) + "); query " + q.dump());
    }
  return r;
}

// ---------------------------------------------------------------- Objects::Surface: kd-tree guided search vs brute force over its triangles
static bool bary(const std::array<std::array<double, 3>, 3> &t, double x, double y, double &val, double tol)
{
  const long double x0 = t[0][0], y0 = t[0][1], x1 = t[1][0], y1 = t[1][1], x2 = t[2][0], y2 = t[2][1];
  const long double det = (y1 - y2) * (x0 - x2) + (x2 - x1) * (y0 - y2);
  // a triangle without area (collinear nodes kept by the triangulation, |det| at rounding level) has no interior and its
  // barycentric coordinates are noise: it cannot be "the containing triangle"
  const long double scale = std::max({(x0 - x2) * (x0 - x2) + (y0 - y2) * (y0 - y2), (x1 - x2) * (x1 - x2) + (y1 - y2) * (y1 - y2), (x0 - x1) * (x0 - x1) + (y0 - y1) * (y0 - y1)});
  if (std::fabs(det) <= 1e-9L * scale) return false;
  const long double l0 = ((y1 - y2) * (x - x2) + (x2 - x1) * (y - y2)) / det;
  const long double l1 = ((y2 - y0) * (x - x2) + (x0 - x2) * (y - y2)) / det;
  const long double l2 = 1 - l0 - l1;
  if (l0 < -tol || l1 < -tol || l2 < -tol) return false;
  val = static_cast<double>(l0 * t[0][2] + l1 * t[1][2] + l2 * t[2][2]);
  return true;
}

static J gen_surface(Chooser &ch)
{
  J c = J::obj();
  const bool sph = ch.chance(40);
  c["sph"] = sph;
  const int n = static_cast<int>(ch.range(3, 60));
  // node coordinates in radians (spherical) or metres; spherical sets may be written beyond +-pi
  const double cx = sph ? ch.pick<double>({0.0, 3.0, -3.1, 3.3, -3.4, 1.0}) : ch.real(-1e6, 1e6), cy = sph ? ch.real(-1, 1) : ch.real(-1e6, 1e6);
  const double ext = sph ? 0.3 : 5e5;
  J nodes = J::arr();
  const bool lattice = ch.chance(30);
  for (int i = 0; i < n; ++i)
    {
      double x = lattice ? cx + ext * static_cast<double>(ch.range(-4, 4)) / 4 : cx + ch.real(-ext, ext);
      double y = lattice ? cy + ext * static_cast<double>(ch.range(-4, 4)) / 4 : cy + ch.real(-ext, ext);
      nodes.push(jp(x, y, ch.lattice(10e3, 200e3, 1e3)));
    }
  c["nodes"] = nodes;
  J qs = J::arr();
  const int nq = static_cast<int>(ch.range(5, 40));
  for (int i = 0; i < nq; ++i)
    {
      // convex combination of three nodes: inside the hull by construction
      const J &a = nodes[ch.index(nodes.size())], &b = nodes[ch.index(nodes.size())], &d = nodes[ch.index(nodes.size())];
      double u = ch.real(0, 1), v = ch.real(0, 1);
      if (u + v > 1) { u = 1 - u; v = 1 - v; }
      if (ch.chance(10)) { u = 0; v = 0; } // exactly a node
      qs.push(jp(a[0].num() + u * (b[0].num() - a[0].num()) + v * (d[0].num() - a[0].num()), a[1].num() + u * (b[1].num() - a[1].num()) + v * (d[1].num() - a[1].num())));
    }
  c["queries"] = qs;
  return c;
}

static Result check_surface(const J &c)
{
  Result r;
  const bool sph = c.at("sph").boolean();
  std::pair<std::vector<double>, std::vector<double>> vp;
  std::set<std::pair<double, double>> seen;
  for (const auto &n : c.at("nodes").a)
    {
      if (!seen.insert({n[0].num(), n[1].num()}).second) continue; // duplicate positions are not a valid triangulation input
      vp.first.push_back(n[2].num()); vp.second.push_back(n[0].num()); vp.second.push_back(n[1].num());
    }
  if (vp.first.size() < 3) { r.discard = true; return r; }
  // Listed points are distinct places: two nodes closer together than 1e-6 of the extent of the set (sub-millimetre on a 1000 km
  // footprint; only the shrinker produces them) are as ill-defined an input as exact duplicates
  {
    double xmin = 1e300, xmax = -1e300, ymin = 1e300, ymax = -1e300;
    for (size_t i = 0; i < vp.first.size(); ++i) { xmin = std::min(xmin, vp.second[2 * i]); xmax = std::max(xmax, vp.second[2 * i]); ymin = std::min(ymin, vp.second[2 * i + 1]); ymax = std::max(ymax, vp.second[2 * i + 1]); }
    const double ext = std::hypot(xmax - xmin, ymax - ymin);
    for (size_t i = 0; i < vp.first.size(); ++i)
      for (size_t j = i + 1; j < vp.first.size(); ++j)
        if (std::hypot(vp.second[2 * i] - vp.second[2 * j], vp.second[2 * i + 1] - vp.second[2 * j + 1]) < 1e-6 * ext) { r.discard = true; return r; }
  }
  // need a non-degenerate point set
  {
    bool ok = false;
    for (size_t i = 2; i < vp.first.size() && !ok; ++i)
      if (std::fabs((vp.second[2] - vp.second[0]) * (vp.second[2 * i + 1] - vp.second[1]) - (vp.second[3] - vp.second[1]) * (vp.second[2 * i] - vp.second[0])) > 1e-9) ok = true;
    if (!ok) { r.discard = true; return r; }
  }
  WB::Objects::Surface S(vp);
  // the pre-test bounds callers use before they evaluate the local surface: exactly the smallest and the largest listed value
  {
    const double lo = *std::min_element(vp.first.begin(), vp.first.end()), hi = *std::max_element(vp.first.begin(), vp.first.end());
    r.inner++; r.inner_nt++;
    if (S.minimum != lo || S.maximum != hi)
      return Result::fail("surface-min-max", "Surface reports minimum " + fmt(S.minimum) + " / maximum " + fmt(S.maximum) + " for " + std::to_string(vp.first.size()) + " values whose smallest is " + fmt(lo) + " and largest " + fmt(hi));
  }
  r.classes.push_back(sph ? "spherical" : "cartesian");
  r.classes.push_back(S.triangles.size() < 10 ? "triangles<10" : "triangles>=10");
  double vmin = 1e300, vmax = -1e300;
  for (double v : vp.first) { vmin = std::min(vmin, v); vmax = std::max(vmax, v); }
  for (const auto &q : c.at("queries").a)
    {
      const double x = q[0].num(), y = q[1].num();
      // brute force over the triangles the object exposes
      double want = 0;
      bool found = false;
      for (const auto &t : S.triangles) if (bary(t, x, y, want, 1e-12)) { found = true; break; }
      if (!found) { r.classes.push_back("not-in-any-triangle(skipped)"); continue; }
      // the caller passes longitudes normalised to (-pi, pi]
      double qx = x;
      bool aliased = false;
      if (sph) { while (qx > PI) { qx -= 2 * PI; aliased = true; } while (qx <= -PI) { qx += 2 * PI; aliased = true; } }
      r.inner++; r.inner_nt++; r.nontrivial = true;
      if (aliased) r.classes.push_back("query longitude aliased by 2pi");
      double got;
      try { got = S.local_value(WB::Point<2>(qx, y, sph ? WB::spherical : WB::cartesian)).interpolated_value; }
      catch (const std::exception &e)
        {
          // a point exactly on a node/edge may be rejected by every triangle's tolerance; that is C11's subject. Here: strictly interior points only.
          double dummy;
          bool strictly = false;
          for (const auto &t : S.triangles) if (bary(t, x, y, dummy, -1e-6)) strictly = true;
          if (!strictly) { r.classes.push_back("on-edge-rejected(skipped)"); continue; }
          return Result::fail(aliased ? "surface-search-alias" : "surface-search-not-found", std::string("local_value throws although a brute-force scan of the surface's own triangles contains the point: ") + std::string(e.what()).substr(0, 200) + " query " + q.dump());
        }
      if (!close_rel(got, want, 1e-9, 1e-9 * (vmax - vmin + 1)))
        return Result::fail("surface-search-value", "local_value returns " + fmt(got) + " but barycentric interpolation in the containing triangle gives " + fmt(want) + " at " + q.dump());
    }
  return r;
}

// ---------------------------------------------------------------- models with their own point-wise depth range
// A model's own "min depth" / "max depth" may be a surface too; before the local surface is evaluated the model compares the depth with
// the surface's extreme values. Oracle: the surfaces are tilted planes written as one value per polygon corner (any triangulation
// reproduces them), so whether a model is active at a point is known in closed form; an active uniform model gives its value, an
// inactive one leaves what was there (background temperature, zero composition / velocity / grains).
static J gen_model_surface(Chooser &ch)
{
  g::Opt o;
  g::Frame fr = g::gen_frame(ch, o);
  J root = J::obj();
  g::frame_to_json(fr, root);
  g::Opt none; none.grains = false; none.velocity = false; none.custom_tags = false;
  g::FM m;
  const std::string type = ch.pick<std::string>({"continental plate", "oceanic plate", "mantle layer"});
  J feat;
  for (int attempt = 0; attempt < 20; ++attempt)
    {
      feat = g::area_feature(ch, fr, none, type, g::gen_centre(ch, fr), 0, m);
      bool zero = false;
      for (auto &p : m.coords) if (p[0] == 0 || p[1] == 0) zero = true; // listed finding C11: a value at a corner with a zero coordinate
      if (!zero) break;
    }
  feat.erase("temperature models"); feat.erase("composition models");
  feat["min depth"] = 0.0; feat["max depth"] = 400e3;
  double ext = 0;
  for (auto &p : m.coords) ext = std::max(ext, std::max(std::fabs(p[0] - m.kernel[0]), std::fabs(p[1] - m.kernel[1])));
  J c = J::obj();
  J planes = J::arr();
  auto surface = [&](double base, double amp, J &plane) {
    const double a = ch.real(-1, 1) * amp / (2 * ext), b = ch.real(-1, 1) * amp / (2 * ext);
    plane = J::arr({J(base), J(a), J(b)});
    J sf = J::arr();
    sf.push(J::arr({J(base)}));
    for (auto &p : m.coords) sf.push(J::arr({J(base + a * (p[0] - m.kernel[0]) + b * (p[1] - m.kernel[1])), J::arr({jp(p[0], p[1])})}));
    return sf;
  };
  const char *kinds[4] = {"temperature models", "composition models", "velocity models", "grains models"};
  for (int k = 0; k < 4; ++k)
    {
      J mo = J::obj();
      J pmin = J(), pmax = J();
      if (k == 0) { mo["model"] = "uniform"; mo["temperature"] = ch.lattice(300, 1200, 50); }
      else if (k == 1) { mo["model"] = "uniform"; mo["compositions"] = J::arr({J(0)}); mo["fractions"] = J::arr({J(ch.lattice(0.125, 1, 0.125))}); }
      else if (k == 2) { mo["model"] = "uniform raw"; mo["velocity"] = J::arr({J(ch.lattice(0.5, 3, 0.5)), J(ch.lattice(-3, -0.5, 0.5)), J(ch.lattice(0.5, 2, 0.5))}); }
      else { mo["model"] = "uniform"; mo["compositions"] = J::arr({J(0)}); mo["Euler angles z-x-z"] = J::arr({jp(30, 45, 60)}); mo["grain sizes"] = J::arr({J(0.5)}); }
      // each of the two limits: absent, a number, or a tilted plane
      const int kmin = static_cast<int>(ch.range(0, 2)), kmax = static_cast<int>(ch.range(1, 2)) + (ch.chance(60) ? 1 : 0);
      if (kmin == 1) { const double v = ch.lattice(40e3, 120e3, 10e3); mo["min depth"] = v; pmin = J::arr({J(v), J(0.0), J(0.0)}); }
      else if (kmin == 2) mo["min depth"] = surface(ch.lattice(60e3, 120e3, 10e3), 60e3, pmin);
      if (kmax == 1) { const double v = ch.lattice(200e3, 330e3, 10e3); mo["max depth"] = v; pmax = J::arr({J(v), J(0.0), J(0.0)}); }
      else if (kmax >= 2) mo["max depth"] = surface(ch.lattice(220e3, 320e3, 10e3), 100e3, pmax);
      feat[kinds[k]] = J::arr({mo});
      planes.push(J::arr({pmin, pmax}));
    }
  root["features"] = J::arr({feat});
  g::GW w; w.fr = fr; w.root = root; m.dmin = 0; m.dmax = 400e3; w.feats.push_back(m);
  c["world"] = root.dump();
  c["planes"] = planes;
  c["cx"] = m.kernel[0]; c["cy"] = m.kernel[1];
  c["queries"] = g::gen_queries(ch, w, static_cast<int>(ch.range(8, 30)), 100);
  return c;
}

static Result check_model_surface(const J &c)
{
  Result r;
  const J root = J::parse(c.at("world").str());
  auto W = make_world(c.at("world").str());
  const J &feat = root.at("features")[0];
  const PropList pl = {{{1, 0, 0}}, {{2, 0, 0}}, {{5, 0, 0}}, {{3, 0, 1}}, {{4, 0, 0}}};
  r.classes.push_back(feat.at("model").str());
  for (const auto &q : c.at("queries").a)
    {
      const double depth = q.at("depth").num();
      const std::vector<double> out = W->properties(p3(q.at("p")), depth, pl);
      if (out.back() == -1) continue;
      const double dx = q.at("nat")[0].num() - c.at("cx").num(), dy = q.at("nat")[1].num() - c.at("cy").num();
      bool near = false;
      std::array<bool, 4> active{};
      for (size_t k = 0; k < 4; ++k)
        {
          const J &pp = c.at("planes")[k];
          const double zmin = pp[0].is_arr() ? pp[0][0].num() + pp[0][1].num() * dx + pp[0][2].num() * dy : 0.0;
          const double zmax = pp[1].is_arr() ? pp[1][0].num() + pp[1][1].num() * dx + pp[1][2].num() * dy : std::numeric_limits<double>::max();
          active[k] = depth >= zmin && depth <= zmax;
          if (std::fabs(depth - zmin) < 1e-3 * (1 + depth) || std::fabs(depth - zmax) < 1e-3 * (1 + depth)) near = true;
          if (pp[0].is_arr() && pp[0][1].num() != 0) r.classes.push_back("tilted min depth");
          if (pp[1].is_arr() && (pp[1][1].num() != 0 || pp[1][2].num() != 0)) r.classes.push_back("tilted max depth");
        }
      if (near) continue;
      r.inner++; r.inner_nt++; r.nontrivial = true;
      // temperature: the model's value when active, anything else (the background) when not
      const double Tm = feat.at("temperature models")[0].at("temperature").num();
      if (active[0] && out[0] != Tm) return Result::fail("model-surface-temperature", "the temperature model is active at depth " + fmt(depth) + " (its own depth range there) but the temperature is " + fmt(out[0]) + " instead of " + fmt(Tm) + "; query " + q.dump());
      if (!active[0] && out[0] == Tm) return Result::fail("model-surface-temperature", "the temperature model is not active at depth " + fmt(depth) + " but the temperature is its value " + fmt(Tm) + "; query " + q.dump());
      const double fr0 = feat.at("composition models")[0].at("fractions")[0].num();
      if (out[1] != (active[1] ? fr0 : 0.0)) return Result::fail("model-surface-composition", std::string("the composition model is ") + (active[1] ? "active" : "not active") + " at depth " + fmt(depth) + " but composition 0 is " + fmt(out[1]) + "; query " + q.dump());
      const J &vv = feat.at("velocity models")[0].at("velocity");
      for (size_t k = 0; k < 3; ++k)
        if (out[2 + k] != (active[2] ? vv[k].num() : 0.0)) return Result::fail("model-surface-velocity", std::string("the velocity model is ") + (active[2] ? "active" : "not active") + " at depth " + fmt(depth) + " but velocity component " + std::to_string(k) + " is " + fmt(out[2 + k]) + "; query " + q.dump());
      if ((out[5] != 0) != active[3]) return Result::fail("model-surface-grains", std::string("the grains model is ") + (active[3] ? "active" : "not active") + " at depth " + fmt(depth) + " but the grain size is " + fmt(out[5]) + "; query " + q.dump());
    }
  return r;
}

int main(int argc, char **argv)
{
  return run_main("C07", argc, argv,
  {
    {"line_culling", "1..2 slabs/faults with curved trenches, any min depth, both coordinate systems (trenches moved to |lat| up to 78 deg, next to +-180), 20..80 points biased to the rim of the region a member can occupy; oracle: the same file built with Verif::disable_culling (infinite bounding box, infinite length cut-off) must answer bit-identically. Non-trivial: the un-culled world puts the point inside", 60, gen_culling, check_culling, 100, true, true},
    {"surface_search", "Objects::Surface built from 3..60 generated nodes (random or lattice, spherical sets written beyond +-pi), queries inside the hull by construction with longitudes normalised as callers do; oracle: brute-force scan of the object's own triangles with an independent long-double barycentric test", 300, gen_surface, check_surface},
    {"model_depth_surfaces", "one area feature (all three types, both coordinate systems) whose uniform temperature / composition / velocity / grains models each have their own min and max depth: absent, a number, or a tilted plane given as one value per polygon corner; oracle: closed-form activity of every model at the point, active model gives its value, inactive one leaves the background / zero. Non-trivial: every point away from the planes", 120, gen_model_surface, check_model_surface},
  });
}
