// C15 — seeded randomness is reproducible and random grains are valid.
#include "../gen.h"

using namespace vf;
namespace WB = WorldBuilder;

// ---------------------------------------------------------------- reproducibility over histories
static J gen_repro(Chooser &ch)
{
  g::Opt o;
  o.min_features = 1; o.max_features = 4;
  o.random_models = true; o.operations = true; o.cooling_models = false;
  g::GW w = g::gen_world(ch, o);
  // make sure at least one random model is present: add one to the first feature that can carry it
  {
    J &f0 = w.root["features"][0];
    J gm = J::obj();
    const bool plume = f0.at("model").str() == "plume";
    gm["model"] = plume || ch.flip() ? "random uniform distribution deflected" : "random uniform distribution";
    gm["compositions"] = J::arr({J(0), J(1)});
    if (gm["model"].str() == "random uniform distribution deflected")
      {
        gm["basis Euler angles z-x-z"] = J::arr({jp(ch.lattice(0, 345, 15), ch.lattice(0, 165, 15), ch.lattice(0, 345, 15)), jp(0, 0, 0)});
        gm["deflections"] = J::arr({J(ch.lattice(0, 1, 0.125)), J(1.0)});
      }
    gm["grain sizes"] = J::arr({J(ch.chance(50) ? -1.0 : 0.25), J(-1.0)});
    gm["normalize grain sizes"] = J::arr({J(ch.flip()), J(ch.flip())});
    J l = J::arr({gm});
    f0["grains models"] = l;
  }
  const bool file_seed = ch.chance(40);
  // the entry accepts every value >= 0 (its default -1 means "not given"): 0 and 1 are as valid as any other seed
  if (file_seed) w.root["random number seed"] = ch.chance(35) ? static_cast<int>(ch.range(0, 2)) : (ch.chance(20) ? 2147483647 - static_cast<int>(ch.range(0, 3)) : static_cast<int>(ch.range(0, 100000)));
  J c = J::obj();
  c["world"] = w.root.dump();
  c["seed"] = ch.pick<double>({1.0, 0.0, 7.0, 123456789.0, 4294967295.0});
  c["other_seed"] = c["seed"].num() + static_cast<double>(ch.range(1, 1000));
  J steps = J::arr();
  const int n = static_cast<int>(ch.range(1, 30));
  for (int i = 0; i < n; ++i)
    {
      J s = J::obj();
      s["q"] = g::gen_query(ch, w, ch.chance(85) ? &w.feats[ch.chance(60) ? 0 : ch.index(w.feats.size())] : nullptr);
      J pl = J::arr();
      const int np = static_cast<int>(ch.range(1, 4));
      for (int k = 0; k < np; ++k)
        {
          const int kind = static_cast<int>(ch.range(0, 3));
          if (kind == 0) pl.push(J::arr({J(3), J(static_cast<int>(ch.range(0, 2))), J(static_cast<int>(ch.pick<int>({1, 2, 5, 17, 50})))}));
          else if (kind == 1) pl.push(J::arr({J(2), J(static_cast<int>(ch.range(0, 5))), J(0)}));
          else if (kind == 2) pl.push(J::arr({J(1), J(0), J(0)}));
          else pl.push(J::arr({J(3), J(0), J(static_cast<int>(ch.range(1, 8)))}));
        }
      s["props"] = pl;
      steps.push(s);
    }
  c["steps"] = steps;
  return c;
}

static Result check_repro(const J &c)
{
  Result r;
  const unsigned long seed = static_cast<unsigned long>(c.at("seed").num());
  const unsigned long other = static_cast<unsigned long>(c.at("other_seed").num());
  const J root = J::parse(c.at("world").str());
  auto A = make_world(c.at("world").str(), seed, "a");
  auto B = make_world(c.at("world").str(), seed, "b");
  auto C = make_world(c.at("world").str(), other, "c");
  bool any_draw = false, differs_from_other = false;
  // "different seeds give different draws": the engines the two worlds will draw from are in different states
  const bool engines_differ = !(A->get_random_number_engine() == C->get_random_number_engine());
  for (const auto &s : c.at("steps").a)
    {
      const auto p = p3(s.at("q").at("p"));
      const double depth = s.at("q").at("depth").num();
      const PropList pl = props_from(s.at("props"));
      const std::mt19937 before = A->get_random_number_engine();
      const std::vector<double> a = A->properties(p, depth, pl);
      const bool drew = !(before == A->get_random_number_engine());
      const std::vector<double> b = B->properties(p, depth, pl);
      const std::vector<double> cc = C->properties(p, depth, pl);
      r.inner++;
      if (drew) { any_draw = true; r.inner_nt++; }
      if (a.size() != b.size() || std::memcmp(a.data(), b.data(), a.size() * sizeof(double)) != 0)
        return Result::fail("twin-worlds-differ", "two worlds built from the same file and seed " + std::to_string(seed) + " and queried alike returned different values at step with props " + s.at("props").dump());
      if (drew && (a.size() != cc.size() || std::memcmp(a.data(), cc.data(), a.size() * sizeof(double)) != 0)) differs_from_other = true;
      // validity of whatever grains came back
      size_t pos = 0;
      for (const auto &pr : pl)
        {
          if (pr[0] == 3)
            {
              const unsigned k = pr[2];
              for (unsigned gi = 0; gi < k; ++gi)
                {
                  const double *m = &a[pos + k + gi * 9];
                  bool zero = true;
                  for (int i = 0; i < 9; ++i) if (m[i] != 0) zero = false;
                  if (zero) continue;
                  double err = 0;
                  for (int i = 0; i < 3; ++i)
                    for (int j = 0; j < 3; ++j)
                      {
                        double d = 0;
                        for (int t = 0; t < 3; ++t) d += m[t * 3 + i] * m[t * 3 + j];
                        err = std::max(err, std::fabs(d - (i == j ? 1.0 : 0.0)));
                      }
                  const double det = m[0] * (m[4] * m[8] - m[5] * m[7]) - m[1] * (m[3] * m[8] - m[5] * m[6]) + m[2] * (m[3] * m[7] - m[4] * m[6]);
                  if (err > 1e-12 || std::fabs(det - 1) > 1e-12)
                    return Result::fail("rotation-invalid", "grain rotation matrix is not a proper rotation: |R^T R - I| = " + fmt(err) + ", det = " + fmt(det));
                }
            }
          pos += prop_width(pr);
        }
    }
  r.nontrivial = any_draw;
  r.classes.push_back(any_draw ? "random draws happened" : "no draw");
  const bool file_seed = root.has("random number seed") && root.at("random number seed").num() >= 0;
  if (file_seed) r.classes.push_back("seed from file");
  if (!file_seed && !engines_differ)
    return Result::fail("seed-ignored", "worlds built with seeds " + std::to_string(seed) + " and " + std::to_string(other) + " start from the same random engine state");
  if (file_seed && (engines_differ || differs_from_other))
    return Result::fail("file-seed-not-used", "the file fixes 'random number seed' but worlds with different constructor seeds differ");
  // the seed entry and the constructor argument name the same engine state
  if (file_seed)
    {
      J r2 = root;
      const unsigned long fs = static_cast<unsigned long>(root.at("random number seed").num());
      r2.erase("random number seed");
      auto D = make_world(r2.dump(), fs, "d");
      auto E = make_world(c.at("world").str(), 99, "e");
      for (const auto &s : c.at("steps").a)
        {
          const std::vector<double> d = D->properties(p3(s.at("q").at("p")), s.at("q").at("depth").num(), props_from(s.at("props")));
          const std::vector<double> e = E->properties(p3(s.at("q").at("p")), s.at("q").at("depth").num(), props_from(s.at("props")));
          if (d.size() != e.size() || std::memcmp(d.data(), e.data(), d.size() * sizeof(double)) != 0)
            return Result::fail("file-seed-vs-constructor-seed", "'random number seed': " + std::to_string(fs) + " in the file and the same seed given to the constructor produce different values");
        }
    }
  return r;
}

// ---------------------------------------------------------------- grains validity per model
static const char *area_types[] = {"continental plate", "oceanic plate", "mantle layer"};

static J gen_grains(Chooser &ch)
{
  J c = J::obj();
  const int t = static_cast<int>(ch.range(0, 5));
  const std::string type = t < 3 ? area_types[t] : (t == 3 ? "plume" : (t == 4 ? "subducting plate" : "fault"));
  const bool deflected = type == "plume" || ch.flip();
  g::Opt o;
  o.allow_spherical = ch.chance(30);
  g::Frame fr = g::gen_frame(ch, o);
  J root = J::obj();
  g::frame_to_json(fr, root);
  g::GW w;
  w.fr = fr;
  g::FM m;
  g::Opt none;
  none.grains = false; none.velocity = false; none.custom_tags = false;
  none.top_truncation = false; // the grains model's default range starts at the slab top: keep the whole slab inside it
  J feat;
  const std::array<double, 2> ctr = g::gen_centre(ch, fr);
  if (type == "plume") feat = g::plume_feature(ch, fr, none, ctr, 0, m);
  else if (type == "subducting plate" || type == "fault") feat = g::line_feature(ch, fr, none, type, ctr, 0, m);
  else feat = g::area_feature(ch, fr, none, type, ctr, 0, m);
  feat.erase("temperature models"); feat.erase("composition models");
  J gm = J::obj();
  gm["model"] = deflected ? "random uniform distribution deflected" : "random uniform distribution";
  const int nc = static_cast<int>(ch.range(1, 3));
  J comps = J::arr(), sizes = J::arr(), norm = J::arr(), defl = J::arr(), basis = J::arr();
  for (int i = 0; i < nc; ++i)
    {
      comps.push(J(i * 2));
      // fixed sizes include exactly 0 (a phase switched off), which is "returned as given" only without normalisation (0/0 otherwise)
      const bool zero = ch.chance(8);
      sizes.push(J(zero ? 0.0 : (ch.chance(50) ? -1.0 : ch.lattice(0.125, 3, 0.125))));
      norm.push(J(zero ? false : ch.flip()));
      defl.push(J(ch.lattice(0, 1, 0.125)));
      basis.push(jp(ch.lattice(0, 345, 15), ch.lattice(0, 180, 15), ch.lattice(0, 345, 15)));
    }
  gm["compositions"] = comps; gm["grain sizes"] = sizes; gm["normalize grain sizes"] = norm;
  if (deflected) { gm["deflections"] = defl; gm["basis Euler angles z-x-z"] = basis; }
  feat["grains models"] = J::arr({gm});
  root["features"] = J::arr({feat});
  w.root = root; w.feats.push_back(m);
  c["world"] = root.dump();
  c["model"] = gm;
  c["seed"] = static_cast<double>(ch.range(0, 1000000));
  J qs = J::arr();
  for (int i = 0; i < 6; ++i) qs.push(g::gen_query(ch, w, &w.feats[0]));
  c["queries"] = qs;
  c["k"] = ch.pick<int>({1, 2, 3, 10, 50});
  c["type"] = type;
  return c;
}

static Result check_grains(const J &c)
{
  Result r;
  auto W = make_world(c.at("world").str(), static_cast<unsigned long>(c.at("seed").num()));
  const J &gm = c.at("model");
  const unsigned k = static_cast<unsigned>(c.at("k").num());
  r.classes.push_back(c.at("type").str() + " / " + gm.at("model").str());
  for (const auto &q : c.at("queries").a)
    {
      const auto p = p3(q.at("p"));
      const double depth = q.at("depth").num();
      if (W->properties(p, depth, {{{4, 0, 0}}})[0] == -1) { r.classes.push_back("outside(skipped)"); continue; }
      for (unsigned comp = 0; comp < 6; ++comp)
        {
          const std::vector<double> g = W->properties(p, depth, {{{3, comp, k}}});
          int idx = -1;
          for (size_t i = 0; i < gm.at("compositions").size(); ++i) if (static_cast<unsigned>(gm.at("compositions")[i].num()) == comp) idx = static_cast<int>(i);
          r.inner++;
          if (idx < 0)
            {
              // slabs and faults turn untouched all-zero grains into identity matrices (listed under C02); sizes must stay 0
              for (unsigned gi = 0; gi < k; ++gi) if (g[gi] != 0) return Result::fail("unlisted-composition-has-grains", "grain sizes for a composition the model does not list are not zero");
              continue;
            }
          r.nontrivial = true; r.inner_nt++;
          const double fixed = gm.at("grain sizes")[static_cast<size_t>(idx)].num();
          const bool norm = gm.at("normalize grain sizes")[static_cast<size_t>(idx)].boolean();
          r.classes.push_back(std::string(norm ? "normalised" : "raw") + (fixed < 0 ? " random sizes" : " fixed sizes"));
          double sum = 0;
          for (unsigned gi = 0; gi < k; ++gi)
            {
              const double sz = g[gi];
              sum += sz;
              if (!(sz >= 0) || !std::isfinite(sz)) return Result::fail("grain-size-invalid", "grain size " + fmt(sz));
              if (!norm && fixed >= 0 && sz != fixed) return Result::fail("fixed-grain-size-changed", "fixed grain size " + fmt(fixed) + " requested, " + fmt(sz) + " returned");
              if (!norm && fixed < 0 && !(sz >= 0 && sz < 1)) return Result::fail("random-grain-size-range", "random grain size " + fmt(sz) + " outside [0,1)");
              const double *m = &g[k + gi * 9];
              double err = 0;
              for (int i = 0; i < 3; ++i)
                for (int j = 0; j < 3; ++j)
                  {
                    double d = 0;
                    for (int t = 0; t < 3; ++t) d += m[t * 3 + i] * m[t * 3 + j];
                    err = std::max(err, std::fabs(d - (i == j ? 1.0 : 0.0)));
                  }
              const double det = m[0] * (m[4] * m[8] - m[5] * m[7]) - m[1] * (m[3] * m[8] - m[5] * m[6]) + m[2] * (m[3] * m[7] - m[4] * m[6]);
              if (err > 1e-12 || std::fabs(det - 1) > 1e-12)
                return Result::fail("rotation-invalid", c.at("type").str() + " " + gm.at("model").str() + ": grain " + std::to_string(gi) + " rotation matrix is not a proper rotation: |R^T R - I| = " + fmt(err) + ", det = " + fmt(det));
            }
          if (norm && std::fabs(sum - 1) > 1e-12) return Result::fail("normalised-sizes-sum", "normalised grain sizes sum to " + fmt(sum));
        }
    }
  return r;
}

// ---------------------------------------------------------------- random composition within its bounds
static J gen_randcomp(Chooser &ch)
{
  J c = J::obj();
  g::Opt o;
  g::Frame fr = g::gen_frame(ch, o);
  J root = J::obj();
  g::frame_to_json(fr, root);
  g::FM m;
  g::Opt none;
  none.grains = false; none.velocity = false;
  J feat = g::area_feature(ch, fr, none, "continental plate", g::gen_centre(ch, fr), 0, m);
  feat.erase("temperature models");
  J cm = J::obj();
  cm["model"] = "random";
  const int nc = static_cast<int>(ch.range(1, 4));
  J comps = J::arr(), lo = J::arr(), hi = J::arr();
  for (int i = 0; i < nc; ++i)
    {
      comps.push(J(i));
      // disjoint ranges per composition so that a value drawn from another entry's bounds is recognisable
      const double l = 10.0 * i + ch.lattice(0, 4, 0.5);
      lo.push(J(l)); hi.push(J(l + ch.lattice(0.5, 4, 0.5)));
    }
  cm["compositions"] = comps; cm["min value"] = lo; cm["max value"] = hi;
  feat["composition models"] = J::arr({cm});
  root["features"] = J::arr({feat});
  g::GW w; w.fr = fr; w.root = root; w.feats.push_back(m);
  c["world"] = root.dump();
  c["model"] = cm;
  c["seed"] = static_cast<double>(ch.range(0, 1000000));
  J qs = J::arr();
  for (int i = 0; i < 8; ++i) qs.push(g::gen_query(ch, w, &w.feats[0]));
  c["queries"] = qs;
  return c;
}

static Result check_randcomp(const J &c)
{
  Result r;
  auto W = make_world(c.at("world").str(), static_cast<unsigned long>(c.at("seed").num()));
  const J &cm = c.at("model");
  for (const auto &q : c.at("queries").a)
    {
      const auto p = p3(q.at("p"));
      const double depth = q.at("depth").num();
      if (W->properties(p, depth, {{{4, 0, 0}}})[0] == -1) continue;
      for (size_t i = 0; i < cm.at("compositions").size(); ++i)
        {
          const double v = W->composition(p, depth, static_cast<unsigned>(cm.at("compositions")[i].num()));
          const double lo = cm.at("min value")[i].num(), hi = cm.at("max value")[i].num();
          r.inner++;
          if (i > 0) { r.nontrivial = true; r.inner_nt++; }
          if (!(v >= lo && v <= hi))
            return Result::fail(i > 0 ? "random-composition-uses-first-bounds" : "random-composition-bounds", "random composition " + std::to_string(i) + " = " + fmt(v) + " outside its configured bounds [" + fmt(lo) + "," + fmt(hi) + "] (model " + cm.dump() + ")");
        }
      const double unlisted = W->composition(p, depth, 5);
      if (unlisted != 0) return Result::fail("random-composition-unlisted", "composition 5 (not listed, replace) is " + fmt(unlisted));
    }
  return r;
}

int main(int argc, char **argv)
{
  return run_main("C15", argc, argv,
  {
    {"reproducibility", "worlds with random grains / random composition models in any feature type; seeds via constructor {0,1,7,123456789,2^32-1} and via 'random number seed'; histories of 1..30 requests (grain counts 1..50). Oracle: twin world bitwise equal at every step, another seed differs, file seed == constructor seed, every non-zero rotation matrix proper. Non-trivial: at least one draw from the engine happened", 80, gen_repro, check_repro, 100, true, true},
    {"grains_validity", "single feature of every type with one random grains model (1..3 compositions, fixed/random sizes, normalised or not, deflections, basis angles), 1..50 grains. Oracle: proper rotations (1e-12), normalised sizes sum to 1, fixed sizes verbatim, random sizes in [0,1), unlisted compositions get no sizes", 150, gen_grains, check_grains, 100, true, true},
    {"random_composition", "continental plate with a random composition model, 1..4 compositions with disjoint [min,max] ranges. Oracle: every value within the bounds of its own composition entry. Non-trivial: second and later compositions", 100, gen_randcomp, check_randcomp, 100, true, true},
  });
}
