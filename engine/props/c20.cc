// C20 — cooling models stay inside their physical envelope.
#include "../gen.h"
#include "../ref_geometry.h"

using namespace vf;
namespace WB = WorldBuilder;

struct Globals { double Tp, alpha, cp, g, kappa, Ts; };
static Globals gen_globals(Chooser &ch, J &root)
{
  Globals G{ch.lattice(1400, 1900, 25), ch.real(1.5e-5, 4e-5), ch.lattice(1000, 1400, 50), ch.lattice(8, 12, 0.5), ch.real(0.7e-6, 1.3e-6), ch.pick<double>({273.15, 293.15, 285.0, 300.0, 250.0})};
  root["potential mantle temperature"] = G.Tp; root["thermal expansion coefficient"] = G.alpha; root["specific heat"] = G.cp;
  J gm = J::obj(); gm["model"] = "uniform"; gm["magnitude"] = G.g; root["gravity model"] = gm;
  root["thermal diffusivity"] = G.kappa; root["surface temperature"] = G.Ts;
  return G;
}
static Globals read_globals(const J &root)
{
  return {root.at("potential mantle temperature").num(), root.at("thermal expansion coefficient").num(), root.at("specific heat").num(), root.at("gravity model").at("magnitude").num(), root.at("thermal diffusivity").num(), root.at("surface temperature").num()};
}
static double adiabat(const Globals &G, double depth) { return G.Tp * std::exp(G.alpha * G.g * depth / G.cp); }

// ---------------------------------------------------------------- oceanic plates
static J gen_oceanic(Chooser &ch)
{
  g::Frame fr; fr.sph = false; fr.H = ch.lattice(500e3, 1500e3, 100e3);
  J root = J::obj();
  g::frame_to_json(fr, root);
  gen_globals(ch, root);
  g::Opt none; none.grains = false; none.velocity = false; none.custom_tags = false;
  g::FM m;
  J feat = g::area_feature(ch, fr, none, "oceanic plate", g::gen_centre(ch, fr), 0, m);
  feat.erase("temperature models"); feat.erase("composition models");
  m.dmin = 0; feat["min depth"] = 0.0;
  m.dmax = ch.lattice(60e3, 200e3, 10e3); feat["max depth"] = m.dmax;
  const std::string kind = ch.pick<std::string>({"half space model", "plate model", "plate model constant age", "linear"});
  J t = J::obj();
  t["model"] = kind; t["max depth"] = m.dmax;
  t["top temperature"] = ch.lattice(250, 320, 5);
  t["bottom temperature"] = kind == "linear" ? ch.lattice(900, 1800, 50) : (ch.chance(35) ? -1.0 : ch.lattice(1400, 1900, 50));
  // ridges of 2..4 points at any azimuth beside the plate (straight ones allow the age comparison)
  const bool straight = ch.chance(60);
  const double xr = m.kernel[0] + (ch.flip() ? 1 : -1) * ch.lattice(1200e3, 3000e3, 100e3);
  if (kind == "half space model" || kind == "plate model")
    {
      t["spreading velocity"] = ch.real(0.01, 0.2);
      if (straight) t["ridge coordinates"] = J::arr({J::arr({jp(xr, m.kernel[1] - 6000e3), jp(xr, m.kernel[1] + 6000e3)})});
      else
        {
          J rd = J::arr();
          const int n = static_cast<int>(ch.range(2, 4));
          const bool sharp = ch.chance(50); // sharper kinks closer to the plate: the closest ridge point is often not on the first segment a point projects onto
          for (int i = 0; i < n; ++i)
            rd.push(sharp ? jp(m.kernel[0] + (xr - m.kernel[0]) * 0.6 + ch.lattice(-900e3, 900e3, 1e3), m.kernel[1] + (i - (n - 1) / 2.0) * 1800e3)
                          : jp(xr + ch.lattice(-600e3, 600e3, 1e3), m.kernel[1] + (i - (n - 1) / 2.0) * 3000e3));
          t["ridge coordinates"] = J::arr({rd});
        }
    }
  else if (kind == "plate model constant age") t["plate age"] = ch.logreal(1e6, 2e8);
  // 35%: the plate thickness is given point-wise (the plate thins towards some of its corners); feature and model share the surface
  if (ch.chance(35))
    {
      J surf = J::arr();
      surf.push(J::arr({J(m.dmax)}));
      for (size_t i = 0; i < m.coords.size(); ++i)
        if (ch.chance(60) && m.coords[i][0] != 0 && m.coords[i][1] != 0)
          surf.push(J::arr({J(ch.lattice(0.2, 1.0, 0.1) * m.dmax), J::arr({jp(m.coords[i][0], m.coords[i][1])})}));
      if (surf.size() > 1) { feat["max depth"] = surf; t["max depth"] = surf; }
    }
  feat["temperature models"] = J::arr({t});
  root["features"] = J::arr({feat});
  g::GW w; w.fr = fr; w.root = root; w.feats.push_back(m);
  J c = J::obj();
  c["world"] = root.dump(); c["xr"] = xr; c["straight"] = straight; c["H"] = fr.H;
  c["queries"] = g::gen_queries(ch, w, static_cast<int>(ch.range(6, 20)), 100);
  return c;
}

static Result check_oceanic(const J &c)
{
  Result r;
  const J root = J::parse(c.at("world").str());
  const Globals G = read_globals(root);
  auto W = make_world(c.at("world").str());
  const J &t = root.at("features")[0].at("temperature models")[0];
  const std::string kind = t.at("model").str();
  // a point-wise thickness: L is the largest value (the bare default); where the plate ends locally is left to the library's tag
  const bool variable_L = t.at("max depth").is_arr();
  const double L = variable_L ? t.at("max depth")[0][0].num() : t.at("max depth").num(), Tt = t.at("top temperature").num(), H = c.at("H").num();
  r.classes.push_back(kind);
  if (variable_L) r.classes.push_back("point-wise plate thickness");
  auto T_at = [&](double x, double y, double depth, double &tag) {
    const std::vector<double> o = W->properties({{x, y, H - depth}}, depth, {{{1, 0, 0}}, {{4, 0, 0}}});
    tag = o[1];
    return o[0];
  };
  const bool series = kind == "plate model" || kind == "plate model constant age";
  // The plate models sum 100 terms of a Fourier series whose complete sum lies between the end members. What the cut-off can add is
  // bounded by the sum of the magnitudes of all later terms, which matters at ages of a few thousand years (within a few km of a
  // ridge that runs through the plate): that bound (capped at the Gibbs fraction 0.09) times the temperature range is allowed on top.
  auto truncation_fraction = [&](double x, double y) {
    if (!series) return 0.0;
    const double year = 31557600.0;
    long double tail = 0;
    if (kind == "plate model constant age")
      {
        const long double age_s = t.at("plate age").num() * year;
        for (int n = 101; n <= 200000; ++n) { const long double e = std::exp(-static_cast<long double>(n) * n * PI * PI * G.kappa * age_s / (L * L)); tail += 2.0L / (n * PI) * e; if (e < 1e-18L || tail > 0.09L) break; }
      }
    else if (t.at("spreading velocity").is_num())
      {
        long double dist = -1;
        const J &rd = t.at("ridge coordinates")[0];
        for (size_t i = 0; i + 1 < rd.size(); ++i)
          {
            const long double ax = rd[i][0].num(), ay = rd[i][1].num(), ex = rd[i + 1][0].num() - ax, ey = rd[i + 1][1].num() - ay;
            const long double sp = std::max(0.0L, std::min(1.0L, ((x - ax) * ex + (y - ay) * ey) / (ex * ex + ey * ey)));
            const long double d = std::hypot(x - (ax + sp * ex), y - (ay + sp * ey));
            if (dist < 0 || d < dist) dist = d;
          }
        const long double v = t.at("spreading velocity").num() / year, Rn = v * L / (2 * G.kappa);
        for (int n = 101; n <= 200000; ++n) { const long double e = std::exp((Rn - std::sqrt(Rn * Rn + static_cast<long double>(n) * n * PI * PI)) * (dist / L)); tail += 2.0L / (n * PI) * e; if (e < 1e-18L || tail > 0.09L) break; }
      }
    else return 0.09;
    return static_cast<double>(std::min(tail, 0.09L));
  };
  for (const auto &q : c.at("queries").a)
    {
      const double x = q.at("nat")[0].num(), y = q.at("nat")[1].num(), depth = std::min(q.at("depth").num(), L);
      double tag;
      const double T = T_at(x, y, depth, tag);
      if (tag == -1) continue;
      const double Tb = t.at("bottom temperature").num() < 0 ? adiabat(G, depth) : t.at("bottom temperature").num();
      // a 100-term Fourier series overshoots next to the surface at young ages (Gibbs): allowance = 9% of the jump for the
      // plate models at depths shallower than 2% of the plate thickness, otherwise 1e-9 relative
      // (the probes paired with this one below lie within 75 km of it: the largest of the bounds at those places is used for all)
      double trunc = 0;
      for (double ox : {0.0, 60e3, -60e3, 50e3, -50e3}) for (double oy : {0.0, 45e3, -45e3}) trunc = std::max(trunc, truncation_fraction(x + ox, y + oy));
      if (trunc > 1e-4) r.classes.push_back("series cut-off visible (age of a few thousand years)");
      const double tau = 1e-9 * Tb + (series && depth < 0.02 * L ? 0.09 * (Tb - Tt) : (series ? (1e-3 + trunc) * (Tb - Tt) : 0.0));
      r.inner++; r.inner_nt++; r.nontrivial = true;
      if (T < std::min(Tt, Tb) - tau || T > std::max(Tt, Tb) + tau)
        return Result::fail("oceanic-envelope/" + kind, "oceanic '" + kind + "' returns " + fmt(T) + " at depth " + fmt(depth) + ", outside [top " + fmt(Tt) + ", bottom " + fmt(Tb) + "]; model " + t.dump());
      // rising with depth at a fixed place
      const double d2 = std::min(L, depth + 0.05 * L);
      if (d2 > depth + 1)
        {
          double tg2;
          const double T2 = T_at(x, y, d2, tg2);
          if (tg2 != -1 && kind != "linear" && t.at("bottom temperature").num() >= 0 && T2 < T - tau - 1e-6)
            return Result::fail("oceanic-not-monotone-in-depth/" + kind, "oceanic '" + kind + "': temperature falls from " + fmt(T) + " at depth " + fmt(depth) + " to " + fmt(T2) + " at depth " + fmt(d2));
        }
      // falling with age at a fixed depth (straight ridge: age grows with the distance |x - x_ridge|)
      if ((kind == "half space model" || kind == "plate model") && c.at("straight").boolean() && t.at("bottom temperature").num() >= 0)
        {
          const double xr = c.at("xr").num();
          const double x2 = x + (x > xr ? 1 : -1) * 50e3;
          double tg2;
          const double T2 = T_at(x2, y, depth, tg2);
          if (tg2 != -1 && T2 > T + tau + 1e-6)
            return Result::fail("oceanic-not-monotone-in-age/" + kind, "oceanic '" + kind + "': temperature rises from " + fmt(T) + " to " + fmt(T2) + " when moving 50 km away from the ridge at depth " + fmt(depth));
          r.classes.push_back("age pair");
        }
      // any ridge polyline, constant spreading velocity: the age grows with the distance to the closest point of the polyline
      if ((kind == "half space model" || kind == "plate model") && !c.at("straight").boolean() && t.at("bottom temperature").num() >= 0 && t.at("spreading velocity").is_num())
        {
          const J &rd = t.at("ridge coordinates")[0];
          auto ridge_distance = [&](long double px, long double py) {
            long double best = -1;
            for (size_t i = 0; i + 1 < rd.size(); ++i)
              {
                const long double ax = rd[i][0].num(), ay = rd[i][1].num(), ex = rd[i + 1][0].num() - ax, ey = rd[i + 1][1].num() - ay;
                const long double s = std::max(0.0L, std::min(1.0L, ((px - ax) * ex + (py - ay) * ey) / (ex * ex + ey * ey)));
                const long double d = std::hypot(px - (ax + s * ex), py - (ay + s * ey));
                if (best < 0 || d < best) best = d;
              }
            return static_cast<double>(best);
          };
          const double x2 = x + ((static_cast<long long>(std::fabs(x)) / 1000) % 2 ? 60e3 : -60e3), y2 = y + ((static_cast<long long>(std::fabs(y)) / 1000) % 2 ? 45e3 : -45e3);
          const double da = ridge_distance(x, y), db = ridge_distance(x2, y2);
          double tg2;
          const double T2 = T_at(x2, y2, depth, tg2);
          if (tg2 != -1 && std::fabs(da - db) > 1e3)
            {
              const bool farther = db > da;
              if (farther ? T2 > T + tau + 1e-6 : T2 < T - tau - 1e-6)
                return Result::fail("oceanic-not-monotone-in-age/" + kind, "oceanic '" + kind + "' with ridge " + rd.dump() + ": at depth " + fmt(depth) + " the temperature is " + fmt(T) + " at (" + fmt(x) + "," + fmt(y) + "), " + fmt(da) + " m from the ridge, and " + fmt(T2) + " at (" + fmt(x2) + "," + fmt(y2) + "), " + fmt(db) + " m from the ridge: the older lithosphere is the warmer one");
              r.classes.push_back("age pair (ridge polyline)");
            }
        }
      // boundary temperatures: the top temperature at the model's own top (= the surface here), the bottom temperature at a constant max depth
      double tg0;
      const double T0 = T_at(x, y, 0.0, tg0);
      if (tg0 != -1 && std::fabs(T0 - Tt) > 1e-6 * Tt + (series ? 1e-6 : 0))
        return Result::fail("oceanic-top-temperature/" + kind, "oceanic '" + kind + "' returns " + fmt(T0) + " at its top (depth 0), the top temperature is " + fmt(Tt));
      if ((series || kind == "linear") && !variable_L)
        {
          double tgL;
          const double TL = T_at(x, y, L, tgL);
          const double TbL = t.at("bottom temperature").num() < 0 ? adiabat(G, L) : t.at("bottom temperature").num();
          if (tgL != -1 && std::fabs(TL - TbL) > 1e-6 * TbL)
            return Result::fail("oceanic-bottom-temperature/" + kind, "oceanic '" + kind + "' returns " + fmt(TL) + " at its bottom (depth " + fmt(L) + "), the bottom temperature is " + fmt(TbL));
        }
    }
  return r;
}

// ---------------------------------------------------------------- slabs: mass conserving and plate model
static J gen_slab(Chooser &ch)
{
  J c = J::obj();
  const double x0 = ch.lattice(-1000e3, 1000e3, 1e3), y0 = ch.lattice(-1000e3, 1000e3, 1e3), az = ch.real(-PI, PI), len = ch.real(600e3, 1500e3);
  c["p0"] = jp(x0, y0); c["p1"] = jp(x0 + len * std::cos(az), y0 + len * std::sin(az));
  c["side"] = ch.flip() ? 1 : -1;
  J segs = J::arr();
  const int ns = static_cast<int>(ch.range(1, 3));
  double a_prev = ch.lattice(20, 60, 5);
  for (int i = 0; i < ns; ++i)
    {
      J s = J::obj();
      s["L"] = ch.lattice(200e3, 500e3, 50e3);
      const double a1 = ch.flip() ? a_prev : ch.lattice(20, 70, 5);
      s["a0"] = a_prev; s["a1"] = a1; a_prev = a1;
      segs.push(s);
    }
  // 20%: a flat-slab start - the first segment has dip 0, so the distance below the slab top of a point is its depth and round
  // depths are round fractions of the thickness
  const bool flat = ch.chance(20);
  if (flat) { segs[0]["a0"] = 0.0; segs[0]["a1"] = 0.0; if (segs.size() > 1) segs[1]["a0"] = 0.0; }
  c["flat"] = flat;
  c["segments"] = segs;
  c["thick"] = ch.lattice(100e3, 300e3, 50e3);
  c["trunc"] = -ch.lattice(0, 100e3, 50e3);
  const std::string kind = ch.pick<std::string>({"mass conserving", "mass conserving", "plate model"});
  J m = J::obj();
  m["model"] = kind;
  if (kind == "mass conserving")
    {
      const double vs = ch.real(0.02, 0.1);
      m["spreading velocity"] = vs;
      m["subducting velocity"] = vs * ch.real(1.0, 2.0); // not slower than the plate is made: the age at the trench stays positive
      m["coupling depth"] = ch.lattice(50e3, 120e3, 10e3);
      m["forearc cooling factor"] = ch.lattice(1, 20, 1);
      m["taper distance"] = ch.lattice(50e3, 200e3, 50e3);
      m["min distance slab top"] = c["trunc"].num() == 0 ? -50e3 : c["trunc"].num();
      m["max distance slab top"] = ch.lattice(100e3, 200e3, 50e3);
      m["reference model name"] = ch.pick<std::string>({"half space model", "plate model"});
      if (ch.flip()) { m["apply spline"] = true; m["number of points in spline"] = static_cast<int>(ch.range(4, 8)); }
      if (ch.flip()) m["adiabatic heating"] = ch.flip();
      c["ridge_offset"] = ch.lattice(1000e3, 4000e3, 500e3);
    }
  else
    {
      m["plate velocity"] = ch.real(0.01, 0.15);
      m["max distance slab top"] = ch.lattice(100e3, 250e3, 50e3);
      if (ch.flip()) m["adiabatic heating"] = ch.flip();
      if (ch.flip()) m["density"] = ch.lattice(3000, 3500, 100);
      if (ch.flip()) m["thermal conductivity"] = ch.real(2, 4);
    }
  c["model"] = m;
  J G = J::obj();
  gen_globals(ch, G);
  c["globals"] = G;
  // 45%: a cold overriding plate (linear from the surface temperature to 1500..1700 K at 80..150 km) lies over the dip side and is
  // painted before the slab, so the slab model meets an ambient temperature below the adiabat in the fore-arc
  if (ch.chance(45))
    {
      J ov = J::obj();
      ov["thickness"] = ch.lattice(80e3, 150e3, 10e3);
      ov["bottom"] = ch.lattice(1500, 1700, 50);
      c["overriding"] = ov;
    }
  J pts = J::arr();
  for (int i = 0; i < 30; ++i) { J p = J::obj(); p["s"] = ch.real(0.1, 0.9); p["l"] = ch.real(0.02, 0.98); p["n"] = ch.real(-0.3, 1.0) * c["thick"].num(); pts.push(p); }
  // the uppermost kilometres of the fore-arc next to the trench, given directly as horizontal offset and depth
  for (int i = 0; i < 10; ++i) { J p = J::obj(); p["s"] = ch.real(0.1, 0.9); p["ux"] = ch.real(0, 150e3); p["uz"] = ch.chance(50) ? ch.real(50, 3e3) : ch.real(3e3, 40e3); pts.push(p); }
  // a regular 1 km grid in the flat part
  if (flat) for (int i = 0; i < 25; ++i) { J p = J::obj(); p["s"] = ch.lattice(0.1, 0.9, 0.1); p["ux"] = 1e3 * static_cast<double>(ch.range(1, 40)); p["uz"] = 1e3 * static_cast<double>(ch.range(1, 99)); pts.push(p); }
  c["points"] = pts;
  c["layout"] = static_cast<int>(ch.range(0, 1));
  return c;
}

static Result check_slab(const J &c)
{
  Result r;
  const double H = 2900e3;
  const double x0 = c.at("p0")[0].num(), y0 = c.at("p0")[1].num(), x1 = c.at("p1")[0].num(), y1 = c.at("p1")[1].num();
  const double len = std::sqrt((x1 - x0) * (x1 - x0) + (y1 - y0) * (y1 - y0)), tx = (x1 - x0) / len, ty = (y1 - y0) / len, side = c.at("side").num();
  const double nx = -ty * side, ny = tx * side;
  std::vector<ref::Seg> segs;
  double total = 0;
  J jsegs = J::arr();
  for (const auto &s : c.at("segments").a)
    {
      segs.push_back({s.at("L").num(), s.at("a0").num() * DEG, s.at("a1").num() * DEG});
      total += s.at("L").num();
      J js = J::obj(); js["length"] = s.at("L"); js["thickness"] = J::arr({c.at("thick")}); js["top truncation"] = J::arr({c.at("trunc")}); js["angle"] = J::arr({s.at("a0"), s.at("a1")});
      jsegs.push(js);
    }
  J root = c.at("globals");
  root["version"] = "1.1";
  const Globals G = read_globals(root);
  J feat = J::obj();
  feat["model"] = "subducting plate"; feat["name"] = "slab";
  feat["coordinates"] = J::arr({jp(x0, y0), jp(x1, y1)});
  feat["dip point"] = jp(0.5 * (x0 + x1) + nx * 5e7, 0.5 * (y0 + y1) + ny * 5e7);
  feat["segments"] = jsegs;
  J m = c.at("model");
  const std::string kind = m.at("model").str();
  if (kind == "mass conserving")
    {
      // the ridge lies on the side the plate comes from (opposite to the dip direction), parallel to the trench
      const double off = c.at("ridge_offset").num();
      m["ridge coordinates"] = J::arr({J::arr({jp(x0 - nx * off - tx * 3000e3, y0 - ny * off - ty * 3000e3), jp(x1 - nx * off + tx * 3000e3, y1 - ny * off + ty * 3000e3)})});
    }
  feat["temperature models"] = J::arr({m});
  root["features"] = J::arr({feat});
  std::unique_ptr<WB::World> ambient_world; // the same world without the slab
  if (c.has("overriding"))
    {
      J ov = J::obj();
      ov["model"] = "continental plate"; ov["name"] = "overriding plate";
      const double w = 1500e3, e = 300e3; // from the trench 1500 km towards the dip side, 300 km beyond both trench ends
      ov["coordinates"] = J::arr({jp(x0 - tx * e, y0 - ty * e), jp(x1 + tx * e, y1 + ty * e), jp(x1 + tx * e + nx * w, y1 + ty * e + ny * w), jp(x0 - tx * e + nx * w, y0 - ty * e + ny * w)});
      ov["max depth"] = c.at("overriding").at("thickness");
      J lt = J::obj();
      lt["model"] = "linear"; lt["max depth"] = c.at("overriding").at("thickness"); lt["top temperature"] = G.Ts; lt["bottom temperature"] = c.at("overriding").at("bottom");
      ov["temperature models"] = J::arr({lt});
      J amb = root;
      amb["features"] = J::arr({ov});
      ambient_world = make_world(amb.dump(), 1, "ambient");
      root["features"] = J::arr({ov, feat});
      r.classes.push_back("cold overriding plate over the fore-arc");
    }
  auto W = make_world(root.dump());
  r.classes.push_back("slab/" + kind + (kind == "mass conserving" ? " ref " + m.at("reference model name").str() : ""));
  if (c.has("layout") && c.at("layout").num() == 1) r.classes.push_back("temperature requested behind velocity and grains");
  if (c.has("flat") && c.at("flat").boolean()) r.classes.push_back("flat first segment, probes on a 1 km grid");
  for (const auto &p : c.at("points").a)
    {
      double qx, qy;
      if (p.has("ux")) { qx = p.at("ux").num(); qy = -p.at("uz").num(); }
      else ref::planar_slab_point(segs, p.at("l").num() * total, p.at("n").num(), qx, qy);
      const double depth = -qy;
      if (depth < 1 || depth > H - 1) continue;
      const double s = p.at("s").num() * len, X = x0 + s * tx + qx * nx, Y = y0 + s * ty + qx * ny;
      std::vector<double> out;
      // the temperature asked for first (as the tools do) or behind wide blocks (velocity, grains) in the same request
      const bool behind = c.has("layout") && c.at("layout").num() == 1;
      try
        {
          if (behind) { const std::vector<double> o2 = W->properties({{X, Y, H - depth}}, depth, {{{5, 0, 0}}, {{3, 0, 1}}, {{1, 0, 0}}, {{4, 0, 0}}}); out = {o2[13], o2[14]}; }
          else out = W->properties({{X, Y, H - depth}}, depth, {{{1, 0, 0}}, {{4, 0, 0}}});
        }
      catch (const std::exception &) { r.classes.push_back("model throws(skipped)"); continue; }
      if (out[1] == -1) continue;
      // ambient = what the world holds there without the slab; the upper bound is the larger of that and the background adiabat
      const double here = ambient_world ? ambient_world->temperature({{X, Y, H - depth}}, depth) : adiabat(G, depth);
      const double ambient = std::max(here, adiabat(G, depth));
      r.inner++;
      if (std::fabs(out[0] - here) < 1.0) continue; // the model did not replace the temperature here
      r.inner_nt++; r.nontrivial = true;
      if (ambient_world && here < adiabat(G, depth) - 1.0) r.classes.push_back(depth < 3e3 ? "fore-arc probe, top 3 km, ambient below the adiabat" : "ambient below the adiabat");
      // rounding allowance: the models evaluate series / error functions scaled by the temperature range (1e-8 of it)
      const double tau = 1e-9 * ambient + 1e-6 + 1e-8 * std::fabs(ambient - G.Ts);
      if (out[0] > ambient + tau)
        return Result::fail("slab-above-ambient/" + kind, "slab '" + kind + "' returns " + fmt(out[0]) + " at depth " + fmt(depth) + ", hotter than the ambient/background adiabat " + fmt(ambient) + "; model " + m.dump());
      if (out[0] < G.Ts - tau)
        {
          // listed finding: the slab plate model uses 273.15 K as its cold end member whatever the configured surface temperature
          const bool listed = kind == "plate model" && G.Ts > 273.15 && out[0] >= 273.15 - tau;
          // listed finding: the plate model's 500-term series is cut off sharply; at the corner where the slab top meets the trench
          // (no decay along the slab yet) the partial sum overshoots by the Gibbs fraction of its jump, 0.18 (Tp - 273.15) K, within
          // a few hundred metres of the trench line and of the slab top
          const ref::PlaneDist pd = ref::planar_slab(segs, qx, qy);
          const double thick = c.at("thick").num();
          // (only below the model's own cold end member, 273.15 K: between that and the surface temperature it is the listed finding above)
          const bool gibbs = kind == "plate model" && pd.segment >= 0 && pd.along < 0.002 * thick && pd.from > -1.0 && pd.from < 0.02 * thick
                             && out[0] < 273.15 - tau && out[0] >= 273.15 - 0.18 * (G.Tp - 273.15) - 1.0;
          return Result::fail(gibbs ? "slab-plate-model-series-undershoot-at-the-trench" : (listed ? "slab-plate-model-cold-end-273" : "slab-below-surface-temperature/" + kind),
                              "slab '" + kind + "' returns " + fmt(out[0]) + " at depth " + fmt(depth) + " (" + fmt(pd.along) + " m along the slab, " + fmt(pd.from) + " m below its top), colder than the surface temperature " + fmt(G.Ts) + "; model " + m.dump());
        }
    }
  return r;
}

int main(int argc, char **argv)
{
  return run_main("C20", argc, argv,
  {
    {"oceanic_envelope", "cartesian oceanic plates (min depth 0, constant max depth) with half space / plate / constant-age / linear models, top <= bottom temperature (or adiabatic bottom), ridges of 2..4 points at any azimuth or straight, spreading 1..20 cm/yr, ages 1..200 Myr; interior probes: value inside [top, bottom] (Gibbs allowance for the 100-term series next to the surface), rising with depth, falling with age (straight ridges), top temperature at depth 0, bottom temperature at the max depth (plate and linear models)", 120, gen_oceanic, check_oceanic, 100, true, true},
    {"slab_envelope", "straight cartesian slabs (1..3 straight/arc segments, thickness 100..300 km, top truncation 0..-100 km) with the mass conserving (half-space or plate reference, spline on/off, forearc cooling factor 1..20) or plate model temperature; probes generated in slab coordinates; where the model changes the temperature (> 1 K from ambient) the value lies between the world's surface temperature and the larger of the ambient temperature (the same world without the slab; 45% of the cases have a cold overriding plate over the fore-arc) and the background adiabat at that depth; 10 extra probes in the uppermost kilometres next to the trench", 120, gen_slab, check_slab, 100, true, true},
  });
}
