// C05 — models documented by a closed-form expression return that expression.
// Every oracle below is written from doc/world_builder_declarations_open.md (parameter descriptions) and the
// statement of the property; the documentation sentence it rests on is quoted next to it.
#include "../gen.h"
#include "../ref_geometry.h"

using namespace vf;
namespace WB = WorldBuilder;

struct Globals { double Tp, alpha, cp, g, kappa, Ts; };
static Globals gen_globals(Chooser &ch, J &root)
{
  Globals G{ch.lattice(1300, 1900, 25), ch.real(1.5e-5, 5e-5), ch.lattice(900, 1400, 50), ch.lattice(5, 15, 0.5), ch.real(0.6e-6, 1.4e-6), ch.lattice(250, 320, 5)};
  root["potential mantle temperature"] = G.Tp; root["thermal expansion coefficient"] = G.alpha; root["specific heat"] = G.cp;
  J gm = J::obj(); gm["model"] = "uniform"; gm["magnitude"] = G.g; root["gravity model"] = gm;
  root["thermal diffusivity"] = G.kappa; root["surface temperature"] = G.Ts;
  return G;
}
static Globals read_globals(const J &root)
{
  return {root.at("potential mantle temperature").num(), root.at("thermal expansion coefficient").num(), root.at("specific heat").num(), root.at("gravity model").at("magnitude").num(), root.at("thermal diffusivity").num(), root.at("surface temperature").num()};
}
static double adiabat(const Globals &G, double depth) { return G.Tp * std::exp(G.alpha * G.g * depth / G.cp); }
static double apply_op(const std::string &op, double old_v, double v) { return op == "add" ? old_v + v : (op == "subtract" ? old_v - v : v); }

// ---------------------------------------------------------------- area features: uniform / adiabatic / linear / chapman
static J gen_area(Chooser &ch)
{
  g::Opt o;
  g::Frame fr = g::gen_frame(ch, o);
  J root = J::obj();
  g::frame_to_json(fr, root);
  gen_globals(ch, root);
  g::Opt none; none.grains = false; none.velocity = false; none.custom_tags = false;
  g::FM m;
  const std::string type = ch.pick<std::string>({"continental plate", "oceanic plate", "mantle layer"});
  J feat = g::area_feature(ch, fr, none, type, g::gen_centre(ch, fr), 0, m);
  feat.erase("temperature models"); feat.erase("composition models");
  feat["min depth"] = m.dmin;
  // 30%: top and bottom of the feature are tilted planes, written as one value per corner (samples of an affine function, so the
  // local top / bottom at a point are known whatever triangulation interpolates them); corners with a zero coordinate are left
  // alone (listed finding C11)
  J affine = J::obj();
  bool zero_corner = false;
  for (auto &p : m.coords) if (p[0] == 0 || p[1] == 0) zero_corner = true;
  if (!zero_corner && ch.chance(30))
    {
      double ext = 0;
      for (auto &p : m.coords) ext = std::max(ext, std::max(std::fabs(p[0] - m.kernel[0]), std::fabs(p[1] - m.kernel[1])));
      const double sp = m.dmax - m.dmin;
      auto grad = [&](double room) { return ch.real(-1, 1) * 0.12 * room / ext; };
      const double room_min = std::min(m.dmin, 0.5 * sp); // the top may not rise above the surface
      affine["cx"] = m.kernel[0]; affine["cy"] = m.kernel[1];
      affine["amin"] = grad(room_min); affine["bmin"] = grad(room_min); affine["amax"] = grad(sp); affine["bmax"] = grad(sp);
      J smin = J::arr(), smax = J::arr();
      smin.push(J::arr({J(m.dmin)})); smax.push(J::arr({J(m.dmax)}));
      for (auto &p : m.coords)
        {
          smin.push(J::arr({J(m.dmin + affine["amin"].num() * (p[0] - m.kernel[0]) + affine["bmin"].num() * (p[1] - m.kernel[1])), J::arr({jp(p[0], p[1])})}));
          smax.push(J::arr({J(m.dmax + affine["amax"].num() * (p[0] - m.kernel[0]) + affine["bmax"].num() * (p[1] - m.kernel[1])), J::arr({jp(p[0], p[1])})}));
        }
      feat["min depth"] = smin; feat["max depth"] = smax;
    }
  std::vector<std::string> kinds = {"uniform", "adiabatic", "linear", "linear"};
  if (type == "continental plate") kinds.push_back("chapman");
  const std::string kind = ch.pick(kinds);
  J t = J::obj();
  t["model"] = kind;
  // the model's own range: absent, wider, narrower, shifted against the feature's range
  const double span = m.dmax - m.dmin;
  const int rk = static_cast<int>(ch.range(0, 4));
  double mmin = 0, mmax = std::numeric_limits<double>::max();
  if (rk == 1) { mmin = std::max(0.0, m.dmin - 10e3); mmax = m.dmax + 20e3; }
  else if (rk == 2) { mmin = m.dmin + std::floor(0.2 * span / 1e3) * 1e3; mmax = m.dmax - std::floor(0.2 * span / 1e3) * 1e3; }
  else if (rk == 3) { mmin = 0; mmax = m.dmin + std::floor(0.6 * span / 1e3) * 1e3; }
  else if (rk == 4) { mmin = m.dmin + std::floor(0.3 * span / 1e3) * 1e3; mmax = m.dmax + 50e3; }
  if (kind == "linear" && rk == 0) mmax = m.dmax + (ch.flip() ? 0.0 : 30e3); // "max depth" is required for linear
  if (rk != 0 || kind == "linear") { if (mmin != 0 || ch.flip()) t["min depth"] = mmin; t["max depth"] = mmax; }
  if (kind == "uniform") t["temperature"] = ch.lattice(200, 2000, 25);
  else if (kind == "adiabatic")
    {
      if (ch.flip()) t["potential mantle temperature"] = ch.chance(30) ? -1.0 : ch.lattice(1200, 1800, 50);
      if (ch.flip()) t["thermal expansion coefficient"] = ch.chance(30) ? -1.0 : ch.real(1e-5, 6e-5);
      if (ch.flip()) t["specific heat"] = ch.chance(30) ? -1.0 : ch.lattice(800, 1500, 50);
    }
  else if (kind == "linear") { t["top temperature"] = ch.chance(25) ? -1.0 : ch.lattice(273, 900, 25); t["bottom temperature"] = ch.chance(35) ? -1.0 : ch.lattice(900, 1700, 50); }
  else { t["top temperature"] = ch.chance(30) ? -1.0 : ch.lattice(273, 400, 10); t["top heat flux"] = ch.real(0.03, 0.08); t["thermal conductivity"] = ch.real(2, 4); t["heat generation per unit volume"] = ch.real(0.2e-6, 2e-6); }
  const std::string op = ch.pick<std::string>({"replace", "replace", "add", "subtract"});
  if (op != "replace" || ch.flip()) t["operation"] = op;
  feat["temperature models"] = J::arr({t});
  root["features"] = J::arr({feat});
  g::GW w; w.fr = fr; w.root = root; w.feats.push_back(m);
  J c = J::obj();
  c["world"] = root.dump();
  c["fmin"] = m.dmin; c["fmax"] = m.dmax;
  if (affine.has("cx")) c["affine"] = affine;
  c["queries"] = g::gen_queries(ch, w, static_cast<int>(ch.range(5, 25)), 100);
  return c;
}

static Result check_area(const J &c)
{
  Result r;
  const J root = J::parse(c.at("world").str());
  const Globals G = read_globals(root);
  auto W = make_world(c.at("world").str());
  const J &feat = root.at("features")[0];
  const J &t = feat.at("temperature models")[0];
  const std::string kind = t.at("model").str(), type = feat.at("model").str();
  const std::string op = t.has("operation") ? t.at("operation").str() : "replace";
  double fmin = c.at("fmin").num(), fmax = c.at("fmax").num();
  const double fmin0 = fmin, fmax0 = fmax;
  const bool tilted = c.has("affine");
  if (tilted) r.classes.push_back("tilted top and bottom (one value per corner)");
  const double mmin = t.has("min depth") ? t.at("min depth").num() : 0.0, mmax = t.has("max depth") ? t.at("max depth").num() : std::numeric_limits<double>::max();
  r.classes.push_back(type + "/" + kind);
  for (const auto &q : c.at("queries").a)
    {
      const double depth = q.at("depth").num();
      const std::vector<double> out = W->properties(p3(q.at("p")), depth, {{{1, 0, 0}}, {{4, 0, 0}}});
      if (out[1] == -1) { r.classes.push_back("outside(skipped)"); continue; }
      if (tilted)
        {
          const J &af = c.at("affine");
          const double dx = q.at("nat")[0].num() - af.at("cx").num(), dy = q.at("nat")[1].num() - af.at("cy").num();
          fmin = fmin0 + af.at("amin").num() * dx + af.at("bmin").num() * dy;
          fmax = fmax0 + af.at("amax").num() * dx + af.at("bmax").num() * dy;
          if (std::fabs(depth - fmin) < 1e-3 || std::fabs(depth - fmax) < 1e-3) continue;
        }
      const double ambient = adiabat(G, depth);
      double want = ambient;
      const bool in_model = depth >= mmin && depth <= mmax;
      if (std::fabs(depth - mmin) < 1e-6 || std::fabs(depth - mmax) < 1e-6) continue;
      std::string branch = in_model ? "inside model range" : "outside model range";
      if (in_model)
        {
          double v = 0;
          if (kind == "uniform") v = t.at("temperature").num();
          else if (kind == "adiabatic")
            {
              // "The potential temperature of the mantle at the surface in Kelvin. If the value is lower then zero, the global value is used." (same for alpha, cp)
              const double Tp = (t.has("potential mantle temperature") && t.at("potential mantle temperature").num() >= 0) ? t.at("potential mantle temperature").num() : G.Tp;
              const double al = (t.has("thermal expansion coefficient") && t.at("thermal expansion coefficient").num() >= 0) ? t.at("thermal expansion coefficient").num() : G.alpha;
              const double cp = (t.has("specific heat") && t.at("specific heat").num() >= 0) ? t.at("specific heat").num() : G.cp;
              v = Tp * std::exp(al * G.g * depth / cp);
            }
          else if (kind == "linear")
            {
              // linear between the local top and bottom of (model range ∩ feature range); "If the value is below zero, an adiabatic temperature is used"
              const double top = std::max(fmin, mmin), bot = std::min(fmax, mmax);
              const double Tt = t.at("top temperature").num() < 0 ? adiabat(G, top) : t.at("top temperature").num();
              const double Tb = t.at("bottom temperature").num() < 0 ? adiabat(G, bot) : t.at("bottom temperature").num();
              v = bot - top < 1e-9 ? Tt : Tt + (depth - top) * (Tb - Tt) / (bot - top);
              if (t.at("top temperature").num() < 0) branch += ", adiabatic top"; if (t.at("bottom temperature").num() < 0) branch += ", adiabatic bottom";
              if (top > mmin) branch += ", feature starts below the model";
            }
          else
            {
              // T(z) = T_top + (q_top/k) dz - (A/(2k)) dz^2, dz measured from the local top; negative top temperature => adiabatic
              const double top = std::max(fmin, mmin);
              const double T0 = t.at("top temperature").num() < 0 ? adiabat(G, top) : t.at("top temperature").num();
              const double dz = depth - top, k = t.at("thermal conductivity").num();
              v = T0 + t.at("top heat flux").num() / k * dz - t.at("heat generation per unit volume").num() / (2 * k) * dz * dz;
              if (t.at("top temperature").num() < 0) branch += ", adiabatic top";
            }
          want = apply_op(op, ambient, v);
        }
      r.inner++; r.inner_nt += in_model; r.nontrivial = r.nontrivial || in_model;
      r.classes.push_back(branch);
      if (!close_rel(out[0], want, tilted ? 1e-8 : 1e-10, 1e-9))
        {
          std::string sig = type + "/" + kind;
          if (kind == "linear" && type == "continental plate" && std::max(fmin, mmin) > mmin) sig = "continental-linear-unclipped-top";
          if (kind == "chapman" && t.at("top temperature").num() < 0) sig = "chapman-adiabatic-top-ignored";
          return Result::fail(sig, type + " '" + kind + "' (operation " + op + ", model range [" + fmt(mmin) + "," + fmt(mmax) + "], feature range [" + fmt(fmin) + "," + fmt(fmax) + "]) returns " + fmt(out[0]) + " at depth " + fmt(depth) + ", the documented expression gives " + fmt(want) + " (" + branch + "); model " + t.dump());
        }
    }
  return r;
}

// ---------------------------------------------------------------- oceanic cooling models (cartesian, ridge along a meridian x = const)
static J gen_cooling(Chooser &ch)
{
  g::Frame fr; fr.sph = false; fr.H = ch.lattice(500e3, 1500e3, 100e3);
  J root = J::obj();
  g::frame_to_json(fr, root);
  gen_globals(ch, root);
  g::Opt none; none.grains = false; none.velocity = false; none.custom_tags = false;
  g::FM m;
  J feat = g::area_feature(ch, fr, none, "oceanic plate", g::gen_centre(ch, fr), 0, m);
  feat.erase("temperature models"); feat.erase("composition models");
  m.dmin = 0; feat["min depth"] = 0.0;
  m.dmax = ch.lattice(60e3, 200e3, 10e3); feat["max depth"] = m.dmax;
  const std::string kind = ch.pick<std::string>({"half space model", "plate model", "plate model constant age"});
  J t = J::obj();
  t["model"] = kind;
  t["max depth"] = m.dmax;
  t["top temperature"] = ch.lattice(250, 320, 5);
  t["bottom temperature"] = ch.chance(35) ? -1.0 : ch.lattice(1400, 1900, 50);
  const double xr = m.kernel[0] + (ch.flip() ? 1 : -1) * ch.lattice(1200e3, 4000e3, 100e3);
  bool kinked_ridge = false;
  if (kind != "plate model constant age")
    {
      // the ridge x = xr through 2..4 points; a constant spreading velocity or one per ridge point (linear in between)
      // 35%: a kinked ridge (3..5 points, each up to 1000 km off the line x = xr, the line itself closer to the plate): the closest
      // ridge point is then the closest point of the whole polyline, which need not lie on the first segment the query projects onto
      const bool kinked = ch.chance(35);
      const int np = static_cast<int>(kinked ? ch.range(3, 5) : ch.range(2, 4));
      J rd = J::arr(), vs = J::arr();
      for (int i = 0; i < np; ++i)
        {
          if (kinked) rd.push(jp(m.kernel[0] + (xr - m.kernel[0]) * 0.5 + ch.lattice(-1000e3, 1000e3, 50e3), m.kernel[1] - 3000e3 + 6000e3 * i / (np - 1.0) + ch.lattice(-400e3, 400e3, 50e3)));
          else rd.push(jp(xr, m.kernel[1] - 6000e3 + 12000e3 * i / (np - 1.0)));
          vs.push(J(ch.lattice(0.01, 0.15, 0.005)));
        }
      kinked_ridge = kinked;
      t["ridge coordinates"] = J::arr({rd});
      if (ch.chance(50)) t["spreading velocity"] = ch.real(0.01, 0.15);
      else t["spreading velocity"] = J::arr({J::arr({J(0.0), J::arr({vs})})});
    }
  else t["plate age"] = ch.logreal(2e5, 2e8);
  feat["temperature models"] = J::arr({t});
  root["features"] = J::arr({feat});
  g::GW w; w.fr = fr; w.root = root; w.feats.push_back(m);
  J c = J::obj();
  c["world"] = root.dump(); c["xr"] = xr;
  if (kinked_ridge) c["kinked"] = true;
  c["queries"] = g::gen_queries(ch, w, static_cast<int>(ch.range(5, 25)), 100);
  return c;
}

// spherical: the ridge runs along the equator (2..4 points, up to 300 degrees long, written anywhere in [-360,360]), so the ridge
// point closest to (lon, lat) is (lon, 0) at the great-circle distance R |lat| and the spreading velocity there is the linear
// interpolation of the per-point values at that longitude - whichever 360-degree copy of the longitude the code works with
static J gen_cooling_sph(Chooser &ch)
{
  g::Frame fr; fr.sph = true; fr.R = ch.pick<double>({6371e3, 6371e3, 3390e3}); fr.depth_method = "starting point";
  J root = J::obj();
  g::frame_to_json(fr, root);
  gen_globals(ch, root);
  const double span = ch.chance(40) ? ch.lattice(150, 300, 5) : ch.lattice(20, 150, 5);
  const double la = ch.lattice(-360, 360 - span, 5), lb = la + span;
  const int np = static_cast<int>(ch.range(2, 4));
  J rd = J::arr(), vs = J::arr();
  std::vector<double> lons = {la, lb};
  for (int i = 2; i < np; ++i) lons.push_back(la + ch.lattice(0.1, 0.9, 0.05) * span);
  std::sort(lons.begin(), lons.end());
  lons.erase(std::unique(lons.begin(), lons.end()), lons.end());
  for (double l : lons) { rd.push(jp(l, 0.0)); vs.push(J(ch.lattice(0.01, 0.15, 0.005))); }
  // the plate: a box of longitudes inside the ridge's range, on one side of the equator or across it
  const double w = std::min(0.45 * span, ch.lattice(5, 40, 1)), lc = la + w + ch.real(0, 1) * (span - 2 * w);
  const double s0 = ch.flip() ? 1 : -1, p1 = s0 * ch.lattice(-5, 20, 1), p2 = p1 + s0 * ch.lattice(5, 30, 1);
  J feat = J::obj();
  feat["model"] = "oceanic plate"; feat["name"] = "plate";
  feat["coordinates"] = J::arr({jp(lc - w, std::min(p1, p2)), jp(lc + w, std::min(p1, p2)), jp(lc + w, std::max(p1, p2)), jp(lc - w, std::max(p1, p2))});
  const double dmax = ch.lattice(60e3, 200e3, 10e3);
  feat["min depth"] = 0.0; feat["max depth"] = dmax;
  const std::string kind = ch.pick<std::string>({"half space model", "plate model"});
  J t = J::obj();
  t["model"] = kind; t["max depth"] = dmax;
  t["top temperature"] = ch.lattice(250, 320, 5);
  t["bottom temperature"] = ch.chance(35) ? -1.0 : ch.lattice(1400, 1900, 50);
  t["ridge coordinates"] = J::arr({rd});
  if (ch.chance(30)) t["spreading velocity"] = ch.real(0.01, 0.15);
  else t["spreading velocity"] = J::arr({J::arr({J(0.0), J::arr({vs})})});
  feat["temperature models"] = J::arr({t});
  root["features"] = J::arr({feat});
  J c = J::obj();
  c["world"] = root.dump(); c["sph"] = true; c["R"] = fr.R;
  J qs = J::arr();
  const int nq = static_cast<int>(ch.range(5, 20));
  for (int i = 0; i < nq; ++i)
    {
      const double lon = lc + ch.real(-w, w), lat = std::min(p1, p2) + ch.real(0, 1) * std::fabs(p2 - p1);
      qs.push(g::make_query(fr, lon, lat, ch.real(0, dmax)));
      qs.a.back()["written_lon"] = lon; // the longitude in the ridge's own 360-degree copy
    }
  c["queries"] = qs;
  return c;
}

static Result check_cooling(const J &c)
{
  Result r;
  const J root = J::parse(c.at("world").str());
  const Globals G = read_globals(root);
  auto W = make_world(c.at("world").str());
  const J &t = root.at("features")[0].at("temperature models")[0];
  const std::string kind = t.at("model").str();
  const double L = t.at("max depth").num(), Tt = t.at("top temperature").num();
  const double year = 31557600.0;
  r.classes.push_back(kind);
  for (const auto &q : c.at("queries").a)
    {
      const double depth = q.at("depth").num();
      const std::vector<double> out = W->properties(p3(q.at("p")), depth, {{{1, 0, 0}}, {{4, 0, 0}}});
      if (out[1] == -1 || depth > L - 1e-6 || depth < 1e-6) continue;
      // "The temperature at the bottom ... If the value is below zero, an adiabatic temperature is used."
      const double Tb = t.at("bottom temperature").num() < 0 ? adiabat(G, depth) : t.at("bottom temperature").num();
      double want, tol = 1e-8;
      // distance to the closest ridge point and the spreading velocity (m/yr) there
      double dist = 0, vel = 0;
      if (kind != "plate model constant age")
        {
          const J &rd = t.at("ridge coordinates")[0];
          const bool sph = c.has("sph") && c.at("sph").boolean();
          // the coordinate along the ridge: y (cartesian ridge x = xr) or the longitude (ridge along the equator)
          const double u = sph ? q.at("written_lon").num() : q.at("nat")[1].num();
          dist = sph ? c.at("R").num() * std::fabs(q.at("nat")[1].num()) * DEG : std::fabs(q.at("nat")[0].num() - c.at("xr").num());
          if (c.has("kinked"))
            {
              // the closest point of the ridge polyline (per segment: the foot of the perpendicular, clamped to the segment) and the
              // spreading velocity interpolated linearly along that segment at that point
              const long double px = q.at("nat")[0].num(), py = q.at("nat")[1].num();
              long double best = -1, bx = 0, by = 0, bv = 0;
              std::vector<std::array<long double, 4>> cand;
              for (size_t i = 0; i + 1 < rd.size(); ++i)
                {
                  const long double ax = rd[i][0].num(), ay = rd[i][1].num(), ex = rd[i + 1][0].num() - ax, ey = rd[i + 1][1].num() - ay;
                  long double s = ((px - ax) * ex + (py - ay) * ey) / (ex * ex + ey * ey);
                  s = std::max(0.0L, std::min(1.0L, s));
                  const long double cx = ax + s * ex, cy = ay + s * ey, d = std::sqrt((px - cx) * (px - cx) + (py - cy) * (py - cy));
                  long double v = t.at("spreading velocity").is_num() ? static_cast<long double>(t.at("spreading velocity").num()) : 0.0L;
                  if (!t.at("spreading velocity").is_num()) { const J &vs = t.at("spreading velocity")[0][1][0]; v = vs[i].num() + s * (vs[i + 1].num() - vs[i].num()); }
                  cand.push_back({{d, cx, cy, v}});
                  if (best < 0 || d < best) { best = d; bx = cx; by = cy; bv = v; }
                }
              bool tie = false; // another, different ridge point at (almost) the same distance: which one is "the closest" is rounding
              for (auto &cd : cand) if (std::fabs(cd[0] - best) <= 1e-9L * best + 1e-3L && std::hypot(cd[1] - bx, cd[2] - by) > 1.0L && std::fabs(cd[3] - bv) > 1e-12L) tie = true;
              if (tie) { r.classes.push_back("two ridge points equally close(skipped)"); continue; }
              dist = static_cast<double>(best); vel = static_cast<double>(bv);
              r.classes.push_back("kinked ridge");
              if (!cand.empty() && cand[0][0] > best * (1 + 1e-6)) r.classes.push_back("kinked ridge, closest point not on the first segment");
            }
          else if (t.at("spreading velocity").is_num()) vel = t.at("spreading velocity").num();
          else
            {
              const J &vs = t.at("spreading velocity")[0][1][0];
              const size_t ax = sph ? 0 : 1;
              for (size_t i = 0; i + 1 < rd.size(); ++i)
                if (u >= rd[i][ax].num() && u <= rd[i + 1][ax].num())
                  vel = vs[i].num() + (vs[i + 1].num() - vs[i].num()) * (u - rd[i][ax].num()) / (rd[i + 1][ax].num() - rd[i][ax].num());
              r.classes.push_back("one spreading velocity per ridge point");
            }
          if (sph) { r.classes.push_back("spherical, ridge along the equator"); if (std::fabs(q.at("written_lon").num() - std::atan2(q.at("p")[1].num(), q.at("p")[0].num()) / DEG) > 1) r.classes.push_back("ridge written in another 360-degree copy than the query's natural longitude"); }
          if (!(vel > 0) || dist < 1.0) continue;
        }
      if (kind == "half space model")
        {
          const double age_s = dist / vel * year; // distance to the ridge over the spreading velocity (m/yr)
          want = Tb + (Tt - Tb) * std::erfc(depth / (2 * std::sqrt(G.kappa * age_s)));
        }
      else
        {
          // plate cooling model (Fowler, The solid earth, ch. 7), converged series; the implementation sums 100 terms,
          // so the tolerance includes the magnitude of everything beyond term 100
          long double s = 0, tail = 0;
          const long double z = depth / L;
          for (int n = 1; n <= 20000; ++n)
            {
              long double e;
              if (kind == "plate model")
                {
                  const long double v = vel / year; // m/s
                  const long double age_s = dist / v;
                  const long double Rn = v * L / (2 * G.kappa);
                  e = std::exp((Rn - std::sqrt(Rn * Rn + static_cast<long double>(n) * n * PI * PI)) * (v * age_s / L));
                }
              else e = std::exp(-static_cast<long double>(n) * n * PI * PI * G.kappa * (t.at("plate age").num() * year) / (L * L));
              const long double term = 2.0L / (n * PI) * std::sin(n * PI * z) * e;
              s += term;
              if (n > 100) tail += std::fabs(term);
              if (n > 100 && e < 1e-18L) break;
            }
          want = static_cast<double>(Tt + (Tb - Tt) * (z + s));
          tol = 1e-8;
          r.classes.push_back(tail * std::fabs(Tb - Tt) > 1e-6 ? "truncation visible" : "series converged within 100 terms");
          if (!close_rel(out[0], want, tol, static_cast<double>(tail) * std::fabs(Tb - Tt) + 1e-7))
            return Result::fail("oceanic/" + kind, "oceanic '" + kind + "' returns " + fmt(out[0]) + " at depth " + fmt(depth) + ", the plate cooling series gives " + fmt(want) + " (truncation allowance " + fmt(static_cast<double>(tail) * std::fabs(Tb - Tt)) + "); model " + t.dump() + " query " + q.dump());
          r.inner++; r.inner_nt++; r.nontrivial = true;
          continue;
        }
      r.inner++; r.inner_nt++; r.nontrivial = true;
      if (!close_rel(out[0], want, tol, 1e-7))
        return Result::fail("oceanic/" + kind, "oceanic '" + kind + "' returns " + fmt(out[0]) + " at depth " + fmt(depth) + ", Tb+(Tt-Tb)erfc(d/2sqrt(kappa*age)) gives " + fmt(want) + "; model " + t.dump() + " query " + q.dump());
    }
  return r;
}

// ---------------------------------------------------------------- plume: uniform and gaussian temperature
static J gen_plume(Chooser &ch)
{
  g::Opt o;
  g::Frame fr = g::gen_frame(ch, o);
  J root = J::obj();
  g::frame_to_json(fr, root);
  gen_globals(ch, root);
  g::Opt none; none.grains = false; none.velocity = false; none.custom_tags = false;
  g::FM m;
  std::array<double, 2> ctr = g::gen_centre(ch, fr);
  if (fr.sph) ctr[0] = std::max(-140.0, std::min(140.0, ctr[0]));
  J feat = g::plume_feature(ch, fr, none, ctr, 0, m);
  feat.erase("temperature models"); feat.erase("composition models");
  J t = J::obj();
  t["model"] = "gaussian";
  const int n = static_cast<int>(ch.range(1, 4));
  J depths = J::arr(), temps = J::arr(), sig = J::arr();
  double d = m.dmin + ch.lattice(0, 50e3, 10e3);
  for (int i = 0; i < n; ++i) { depths.push(J(d)); d += ch.lattice(50e3, 300e3, 10e3); temps.push(J(ch.chance(20) ? -1.0 : ch.lattice(1600, 2200, 50))); sig.push(J(ch.real(0.15, 0.8))); }
  t["depths"] = depths; t["centerline temperatures"] = temps; t["gaussian sigmas"] = sig;
  const std::string op = ch.pick<std::string>({"replace", "replace", "add", "subtract"});
  if (op != "replace") t["operation"] = op;
  feat["temperature models"] = J::arr({t});
  root["features"] = J::arr({feat});
  g::GW w; w.fr = fr; w.root = root; w.feats.push_back(m);
  J c = J::obj();
  c["world"] = root.dump();
  c["queries"] = g::gen_queries(ch, w, static_cast<int>(ch.range(5, 25)), 100);
  return c;
}

static Result check_plume(const J &c)
{
  Result r;
  const J root = J::parse(c.at("world").str());
  const Globals G = read_globals(root);
  auto W = make_world(c.at("world").str());
  const J &f = root.at("features")[0];
  const J &t = f.at("temperature models")[0];
  const std::string op = t.has("operation") ? t.at("operation").str() : "replace";
  ref::Plume P;
  for (size_t i = 0; i < f.at("coordinates").size(); ++i)
    {
      P.cx.push_back(f.at("coordinates")[i][0].num()); P.cy.push_back(f.at("coordinates")[i][1].num());
      P.depths.push_back(f.at("cross section depths")[i].num()); P.a.push_back(f.at("semi-major axis")[i].num());
      P.e.push_back(f.at("eccentricity")[i].num()); P.rot_deg.push_back(f.at("rotation angles")[i].num());
    }
  P.dmin = f.at("min depth").num(); P.dmax = f.at("max depth").num();
  const std::vector<double> td = t.at("depths").nums(), tc = t.at("centerline temperatures").nums(), ts = t.at("gaussian sigmas").nums();
  for (const auto &q : c.at("queries").a)
    {
      const double depth = q.at("depth").num();
      const std::vector<double> out = W->properties(p3(q.at("p")), depth, {{{1, 0, 0}}, {{4, 0, 0}}});
      if (out[1] == -1) continue;
      // relative distance from the plume axis: 0 at the centre, 1 at the margin (the membership form of C04)
      bool degenerate = false;
      const double qv = ref::plume_q(P, q.at("nat")[0].num(), q.at("nat")[1].num(), depth, &degenerate);
      if (qv < 0 || qv > 1 || degenerate) continue;
      // centreline temperature and sigma interpolated linearly between the listed depths, constant beyond them
      double Tc, sg;
      if (depth < td.front()) { Tc = tc.front(); sg = ts.front(); }
      else if (depth >= td.back()) { Tc = tc.back(); sg = ts.back(); }
      else
        {
          size_t i = 1;
          while (!(depth < td[i])) ++i;
          const double fr_ = (depth - td[i - 1]) / (td[i] - td[i - 1]);
          Tc = (1 - fr_) * tc[i - 1] + fr_ * tc[i]; sg = (1 - fr_) * ts[i - 1] + fr_ * ts[i];
        }
      if (Tc < 0) Tc = adiabat(G, depth); // "If the value is below zero, then an adiabatic temperature is used."
      // "a sigma of 1 means that the temperature at the plume margin is 1/sqrt(e) of the centerline temperature": T = Tc exp(-r^2 / (2 sigma^2)), r^2 = qv
      const double want = apply_op(op, adiabat(G, depth), Tc * std::exp(-qv / (2 * sg * sg)));
      r.inner++; r.inner_nt++; r.nontrivial = true;
      r.classes.push_back(td.size() > 1 && depth > td.front() && depth < td.back() ? "between listed depths" : "outside listed depths");
      if (!close_rel(out[0], want, 1e-8, 1e-7))
        return Result::fail("plume/gaussian", "gaussian plume temperature is " + fmt(out[0]) + " at depth " + fmt(depth) + " (relative distance^2 " + fmt(qv) + "), Tc*exp(-r^2/(2 sigma^2)) with interpolated Tc=" + fmt(Tc) + ", sigma=" + fmt(sg) + " gives " + fmt(want) + "; model " + t.dump());
    }
  return r;
}

// ---------------------------------------------------------------- slab / fault: uniform, linear, adiabatic over the distance range; smooth and uniform composition
static J gen_line(Chooser &ch)
{
  J c = J::obj();
  const bool fault = ch.chance(40);
  c["type"] = fault ? "fault" : "subducting plate";
  const double x0 = ch.lattice(-1500e3, 1500e3, 1e3), y0 = ch.lattice(-1500e3, 1500e3, 1e3), az = ch.real(-PI, PI), len = ch.real(500e3, 1500e3);
  c["p0"] = jp(x0, y0); c["p1"] = jp(x0 + len * std::cos(az), y0 + len * std::sin(az));
  c["side"] = ch.flip() ? 1 : -1;
  c["L"] = ch.lattice(200e3, 500e3, 10e3);
  c["a0"] = ch.lattice(20, 70, 5); c["a1"] = ch.flip() ? c["a0"].num() : ch.lattice(20, 70, 5);
  const double thick = ch.lattice(80e3, 200e3, 10e3);
  c["thick"] = thick;
  const std::string kind = ch.pick<std::string>({"uniform", "linear", "adiabatic", "smooth composition", "uniform composition"});
  c["kind"] = kind;
  J m = J::obj();
  const std::string lo_key = fault ? "min distance fault center" : "min distance slab top", hi_key = fault ? "max distance fault center" : "max distance slab top";
  const double half = fault ? thick / 2 : thick;
  const double lo = ch.chance(50) ? 0.0 : ch.lattice(0, 0.3 * half, 1e3), hi = ch.lattice(0.5 * half, 1.3 * half, 1e3);
  if (kind == "uniform") { m["model"] = "uniform"; m["temperature"] = ch.lattice(300, 1800, 25); if (ch.flip()) { m[lo_key] = lo; m[hi_key] = hi; } }
  else if (kind == "linear")
    {
      m["model"] = "linear"; m[lo_key] = lo; m[hi_key] = hi;
      m[fault ? "center temperature" : "top temperature"] = ch.lattice(300, 900, 25); m[fault ? "side temperature" : "bottom temperature"] = ch.lattice(900, 1700, 25);
    }
  else if (kind == "adiabatic") { m["model"] = "adiabatic"; if (ch.flip()) m["potential mantle temperature"] = ch.chance(30) ? -1.0 : ch.lattice(1200, 1800, 50); if (ch.flip()) m["specific heat"] = ch.lattice(800, 1500, 50); }
  else if (kind == "uniform composition") { m["model"] = "uniform"; m["compositions"] = J::arr({J(0), J(2)}); m["fractions"] = J::arr({J(ch.lattice(0, 1, 0.125)), J(ch.lattice(0, 1, 0.125))}); if (ch.flip()) { m[lo_key] = lo; m[hi_key] = hi; } }
  else
    {
      // 1..3 compositions, listed in any order (labels and list positions differ), each with its own pair of end members
      m["model"] = "smooth";
      const std::vector<int> labels = ch.pick<std::vector<int>>({{1}, {1}, {1, 0}, {0, 2}, {2, 1, 0}, {0, 1, 2}, {2, 0}});
      J cl = J::arr(), fa = J::arr(), fb = J::arr();
      for (int l : labels) { cl.push(J(l)); fa.push(J(ch.lattice(0, 1, 0.125))); fb.push(J(ch.lattice(0, 1, 0.125))); }
      m["compositions"] = cl;
      m[fault ? "center fractions" : "top fractions"] = fa; m[fault ? "side fractions" : "bottom fractions"] = fb;
      if (fault) m["side distance fault center"] = ch.lattice(0.5 * half, 1.0 * half, 1e3); else m["max distance slab top"] = ch.lattice(0.5 * half, 1.0 * half, 1e3);
    }
  if (kind != "smooth composition" && ch.chance(40)) m["operation"] = ch.pick<std::string>({"add", "subtract"});
  c["model"] = m;
  J G = J::obj();
  gen_globals(ch, G);
  c["globals"] = G;
  J pts = J::arr();
  for (int i = 0; i < 25; ++i) { J p = J::obj(); p["s"] = ch.real(0.1, 0.9); p["l"] = ch.real(0.03, 0.97); p["n"] = fault ? ch.real(-0.6, 0.6) * thick : ch.real(-0.1, 1.1) * thick; pts.push(p); }
  c["points"] = pts;
  return c;
}

static Result check_line(const J &c)
{
  Result r;
  const bool fault = c.at("type").str() == "fault";
  const double H = 2500e3;
  const double x0 = c.at("p0")[0].num(), y0 = c.at("p0")[1].num(), x1 = c.at("p1")[0].num(), y1 = c.at("p1")[1].num();
  const double len = std::sqrt((x1 - x0) * (x1 - x0) + (y1 - y0) * (y1 - y0)), tx = (x1 - x0) / len, ty = (y1 - y0) / len, side = c.at("side").num();
  const double nx = -ty * side, ny = tx * side, L = c.at("L").num(), thick = c.at("thick").num();
  std::vector<ref::Seg> segs = {{L, c.at("a0").num() * DEG, c.at("a1").num() * DEG}};
  J root = c.at("globals");
  root["version"] = "1.1";
  const Globals G = read_globals(root);
  J feat = J::obj();
  feat["model"] = c.at("type").str(); feat["name"] = "line";
  feat["coordinates"] = J::arr({jp(x0, y0), jp(x1, y1)});
  feat["dip point"] = jp(0.5 * (x0 + x1) + nx * 5e7, 0.5 * (y0 + y1) + ny * 5e7);
  J sg = J::obj(); sg["length"] = L; sg["thickness"] = J::arr({J(thick)}); sg["angle"] = J::arr({c.at("a0"), c.at("a1")});
  feat["segments"] = J::arr({sg});
  const std::string kind = c.at("kind").str();
  const J &m = c.at("model");
  const bool comp = kind == "smooth composition" || kind == "uniform composition";
  feat[comp ? "composition models" : "temperature models"] = J::arr({m});
  root["features"] = J::arr({feat});
  auto W = make_world(root.dump());
  const std::string op = m.has("operation") ? m.at("operation").str() : "replace";
  const std::string lo_key = fault ? "min distance fault center" : "min distance slab top", hi_key = fault ? "max distance fault center" : "max distance slab top";
  const double lo = m.has(lo_key) ? m.at(lo_key).num() : 0.0, hi = m.has(hi_key) ? m.at(hi_key).num() : std::numeric_limits<double>::max();
  r.classes.push_back(c.at("type").str() + "/" + kind);
  for (const auto &p : c.at("points").a)
    {
      double qx, qy;
      ref::planar_slab_point(segs, p.at("l").num() * L, p.at("n").num(), qx, qy);
      const double depth = -qy;
      if (depth < 1 || depth > H) continue;
      const double s = p.at("s").num() * len, X = x0 + s * tx + qx * nx, Y = y0 + s * ty + qx * ny;
      const std::array<double, 3> P{{X, Y, H - depth}};
      const ref::PlaneDist d = ref::planar_slab(segs, qx, qy);
      if (d.segment < 0 || d.margin < 10) continue;
      const std::vector<double> out = W->properties(P, depth, {{{1, 0, 0}}, {{2, 0, 0}}, {{2, 1, 0}}, {{2, 2, 0}}, {{4, 0, 0}}});
      if (out[4] == -1) continue;
      const double dist = fault ? std::fabs(d.from) : d.from; // distance from the slab top / the fault centre
      if (std::fabs(dist - lo) < 1 || std::fabs(dist - hi) < 1) continue;
      const bool in_model = dist >= lo && dist <= hi;
      const double ambient = adiabat(G, depth);
      r.inner++; r.inner_nt += in_model; r.nontrivial = r.nontrivial || in_model;
      if (!comp)
        {
          double want = ambient;
          if (in_model)
            {
              double v;
              if (kind == "uniform") v = m.at("temperature").num();
              else if (kind == "linear")
                {
                  const double Ta = m.at(fault ? "center temperature" : "top temperature").num(), Tb = m.at(fault ? "side temperature" : "bottom temperature").num();
                  v = Ta + (dist - lo) * (Tb - Ta) / (hi - lo); // linear between the model's own min and max distance
                }
              else
                {
                  const double Tp = (m.has("potential mantle temperature") && m.at("potential mantle temperature").num() >= 0) ? m.at("potential mantle temperature").num() : G.Tp;
                  const double cp = (m.has("specific heat") && m.at("specific heat").num() >= 0) ? m.at("specific heat").num() : G.cp;
                  v = Tp * std::exp(G.alpha * G.g * depth / cp);
                }
              want = apply_op(op, ambient, v);
            }
          if (!close_rel(out[0], want, 1e-9, 1e-6 * (kind == "linear" ? 1e3 : 1)))
            return Result::fail(c.at("type").str() + "/" + kind, c.at("type").str() + " '" + kind + "' returns " + fmt(out[0]) + " at distance " + fmt(dist) + " (model range [" + fmt(lo) + "," + fmt(hi) + "]), the documented expression gives " + fmt(want) + "; model " + m.dump());
        }
      else if (kind == "uniform composition")
        {
          const double want0 = in_model ? apply_op(op, 0.0, m.at("fractions")[0].num()) : 0.0, want2 = in_model ? apply_op(op, 0.0, m.at("fractions")[1].num()) : 0.0;
          if (!close_rel(out[1], want0, 1e-12, 1e-13) || !close_rel(out[3], want2, 1e-12, 1e-13) || out[2] != 0)
            return Result::fail(c.at("type").str() + "/uniform composition", "uniform composition returns (" + fmt(out[1]) + "," + fmt(out[2]) + "," + fmt(out[3]) + "), expected (" + fmt(want0) + ",0," + fmt(want2) + ") at distance " + fmt(dist) + "; model " + m.dump());
        }
      else
        {
          // smooth: the documentation names the two end members and a hyperbolic tangent in between; asserted: the value stays
          // between the two fractions, and equals the first within 1e-3 of the range at the model's start of the transition.
          const double end = m.at(fault ? "side distance fault center" : "max distance slab top").num();
          const bool in_sm = dist >= 0 && dist <= end;
          if (m.at("compositions").size() > 1) r.classes.push_back("smooth composition with several compositions in list order != label order");
          for (size_t ci = 0; ci < m.at("compositions").size(); ++ci)
            {
              const size_t label = static_cast<size_t>(m.at("compositions")[ci].num());
              const double a = m.at(fault ? "center fractions" : "top fractions")[ci].num(), b = m.at(fault ? "side fractions" : "bottom fractions")[ci].num();
              const double got = out[1 + label];
              if (!in_sm) { if (got != 0 && !fault) return Result::fail("smooth-outside-range", "smooth composition paints " + fmt(got) + " outside its distance range"); continue; }
              if (got < std::min(a, b) - 1e-9 || got > std::max(a, b) + 1e-9)
                return Result::fail(fault ? "fault-smooth-outside-end-members" : "slab-smooth-outside-end-members", c.at("type").str() + " smooth composition returns " + fmt(got) + " for composition " + std::to_string(label) + " at distance " + fmt(dist) + " of " + fmt(end) + ", outside the range of its two end members " + fmt(a) + " and " + fmt(b) + "; model " + m.dump());
            }
        }
    }
  return r;
}

// ---------------------------------------------------------------- uniform grains and uniform raw velocity in every feature type
static J gen_gv(Chooser &ch)
{
  g::Opt o;
  g::Frame fr = g::gen_frame(ch, o);
  J root = J::obj();
  g::frame_to_json(fr, root);
  g::Opt none; none.grains = false; none.velocity = false; none.custom_tags = false; none.top_truncation = false; none.sections = false;
  g::FM m;
  const int t = static_cast<int>(ch.range(0, 5));
  static const char *types[] = {"continental plate", "oceanic plate", "mantle layer", "plume", "subducting plate", "fault"};
  const std::string type = types[t];
  const std::array<double, 2> ctr = g::gen_centre(ch, fr);
  J feat = type == "plume" ? g::plume_feature(ch, fr, none, ctr, 0, m) : (m.line() || t >= 4 ? g::line_feature(ch, fr, none, type, ctr, 0, m) : g::area_feature(ch, fr, none, type, ctr, 0, m));
  feat.erase("temperature models"); feat.erase("composition models");
  J gm = J::obj();
  gm["model"] = "uniform";
  gm["compositions"] = J::arr({J(0), J(1)});
  const bool euler = ch.flip();
  if (euler) gm["Euler angles z-x-z"] = J::arr({jp(ch.real(0, 360), ch.real(0, 180), ch.real(0, 360)), jp(ch.lattice(0, 345, 15), ch.lattice(0, 180, 15), ch.lattice(0, 345, 15))});
  else
    {
      // proper rotation matrices given verbatim (rotation about z by an angle, and a permutation)
      const double a = ch.real(0, 2 * PI);
      gm["rotation matrices"] = J::arr({J::arr({jp(std::cos(a), -std::sin(a), 0), jp(std::sin(a), std::cos(a), 0), jp(0, 0, 1)}), J::arr({jp(0, 1, 0), jp(0, 0, 1), jp(1, 0, 0)})});
    }
  gm["grain sizes"] = J::arr({J(ch.chance(50) ? -1.0 : ch.lattice(0.125, 2, 0.125)), J(ch.lattice(0.125, 2, 0.125))});
  feat["grains models"] = J::arr({gm});
  J vm = J::obj(); vm["model"] = "uniform raw"; vm["velocity"] = jp(ch.real(-0.1, 0.1), ch.real(-0.1, 0.1), ch.real(-0.1, 0.1));
  feat["velocity models"] = J::arr({vm});
  root["features"] = J::arr({feat});
  g::GW w; w.fr = fr; w.root = root; w.feats.push_back(m);
  J c = J::obj();
  c["world"] = root.dump(); c["k"] = ch.pick<int>({1, 2, 3, 7});
  c["queries"] = g::gen_queries(ch, w, 12, 100);
  return c;
}

static Result check_gv(const J &c)
{
  Result r;
  const J root = J::parse(c.at("world").str());
  auto W = make_world(c.at("world").str());
  const J &f = root.at("features")[0];
  const J &gm = f.at("grains models")[0];
  const unsigned k = static_cast<unsigned>(c.at("k").num());
  r.classes.push_back(f.at("model").str());
  for (const auto &q : c.at("queries").a)
    {
      const std::vector<double> out = W->properties(p3(q.at("p")), q.at("depth").num(), {{{3, 0, k}}, {{3, 1, k}}, {{5, 0, 0}}, {{4, 0, 0}}});
      if (out.back() == -1) continue;
      r.inner++; r.inner_nt++; r.nontrivial = true;
      for (size_t i = 0; i < 3; ++i)
        if (!close_rel(out[20 * k + i], f.at("velocity models")[0].at("velocity")[i].num(), 1e-12, 1e-15))
          return Result::fail(f.at("model").str() + "/uniform raw velocity", "velocity component " + std::to_string(i) + " is " + fmt(out[20 * k + i]) + ", the model prescribes " + fmt(f.at("velocity models")[0].at("velocity")[i].num()));
      for (unsigned ci = 0; ci < 2; ++ci)
        {
          const double gs = gm.at("grain sizes")[ci].num();
          const double want_size = gs < 0 ? 1.0 / k : gs; // "If set to <0, the size will be set so that the total is equal to 1."
          for (unsigned gi = 0; gi < k; ++gi)
            {
              const double sz = out[ci * 10 * k + gi];
              if (!close_rel(sz, want_size, 1e-12)) return Result::fail(f.at("model").str() + "/uniform grains size", "grain size " + fmt(sz) + ", expected " + fmt(want_size));
              const double *M = &out[ci * 10 * k + k + gi * 9];
              if (gm.has("rotation matrices"))
                {
                  for (int a = 0; a < 3; ++a) for (int b = 0; b < 3; ++b)
                    if (!close_rel(M[a * 3 + b], gm.at("rotation matrices")[ci][static_cast<size_t>(a)][static_cast<size_t>(b)].num(), 1e-9, 1e-12))
                      return Result::fail(f.at("model").str() + "/uniform grains matrix", "rotation matrix entry [" + std::to_string(a) + "][" + std::to_string(b) + "] is " + fmt(M[a * 3 + b]) + ", the listed matrix has " + fmt(gm.at("rotation matrices")[ci][static_cast<size_t>(a)][static_cast<size_t>(b)].num()));
                }
              else
                {
                  // z-x-z Euler angles (phi1, Phi, phi2): whatever the active/passive convention, the matrix is a proper
                  // rotation with R[2][2] = cos(Phi) and trace = (1+cos Phi) cos(phi1+phi2) + cos Phi
                  const double p1 = gm.at("Euler angles z-x-z")[ci][0].num() * DEG, P = gm.at("Euler angles z-x-z")[ci][1].num() * DEG, p2_ = gm.at("Euler angles z-x-z")[ci][2].num() * DEG;
                  double err = 0;
                  for (int a = 0; a < 3; ++a) for (int b = 0; b < 3; ++b) { double dsum = 0; for (int t = 0; t < 3; ++t) dsum += M[t * 3 + a] * M[t * 3 + b]; err = std::max(err, std::fabs(dsum - (a == b ? 1.0 : 0.0))); }
                  const double tr = M[0] + M[4] + M[8];
                  if (err > 1e-9 || std::fabs(M[8] - std::cos(P)) > 1e-9 || std::fabs(tr - ((1 + std::cos(P)) * std::cos(p1 + p2_) + std::cos(P))) > 1e-9)
                    return Result::fail(f.at("model").str() + "/uniform grains euler", "the matrix returned for Euler angles z-x-z " + gm.at("Euler angles z-x-z")[ci].dump() + " is not the z-x-z rotation (orthonormality error " + fmt(err) + ", R[2][2] " + fmt(M[8]) + " vs cos(Phi) " + fmt(std::cos(P)) + ", trace " + fmt(tr) + ")");
                }
            }
        }
    }
  return r;
}

int main(int argc, char **argv)
{
  return run_main("C05", argc, argv,
  {
    {"area_temperature", "continental / oceanic / mantle-layer features with one uniform, adiabatic, linear or (continental) chapman model; model range absent / wider / narrower / shifted against the feature range; sentinels (-1) for top/bottom/potential temperature, alpha, cp; operations replace/add/subtract over the background; both coordinate systems; interior points by construction. Oracle: the documented expression (1e-10). Non-trivial: depth inside the model range", 150, gen_area, check_area, 100, true, true},
    {"oceanic_cooling", "cartesian oceanic plate with half space / plate / constant-age plate model, ridge along x = const through 2..4 points, spreading velocity 1..15 cm/yr constant or one per ridge point (linear in between), ages up to 200 Myr, bottom temperature given or adiabatic; oracle: erfc form, and the converged Fourier series with the magnitude of the terms beyond the 100th as tolerance", 120, gen_cooling, check_cooling, 100, true, true},
    {"oceanic_cooling_spherical", "spherical oceanic plate (Earth / Mars radius) with half space / plate model whose ridge runs along the equator through 2..4 points spanning 20..300 degrees, written anywhere in [-360,360] (the query's natural longitude is then often another 360-degree copy), constant or per-point spreading velocities; oracle: the same closed forms with distance R |lat| and the velocity interpolated linearly in longitude", 100, gen_cooling_sph, check_cooling, 100, true, true},
    {"plume_gaussian", "plume with 1..4 cross sections and a gaussian model with 1..4 (depth, centreline temperature, sigma) entries; oracle: Tc(z) exp(-r^2/(2 sigma(z)^2)) with r^2 from the membership form of C04", 120, gen_plume, check_plume, 100, true, true},
    {"line_models", "straight cartesian slab or fault (one straight or arc segment) with a uniform / linear / adiabatic temperature model or a uniform / smooth composition model, own distance range, operations; the distance from the slab top / fault centre comes from the planar construction of C06; oracle: documented expressions (smooth: end members only)", 120, gen_line, check_line, 100, true, true},
    {"grains_velocity", "every feature type with a uniform grains model (Euler angles or listed matrices, fixed or negative sizes) and a uniform raw velocity; oracle: matrices verbatim / z-x-z invariants, sizes as given or 1/k, velocity verbatim", 100, gen_gv, check_gv, 100, true, true},
  });
}
