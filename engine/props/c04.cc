// C04 — area features and plumes occupy exactly their declared footprint and depth range.
#include "../gen.h"
#include "../ref_geometry.h"

using namespace vf;
namespace WB = WorldBuilder;

static J indicator_models(J &feat)
{
  J cm = J::obj();
  cm["model"] = "uniform";
  cm["compositions"] = J::arr({J(0)});
  feat["composition models"] = J::arr({cm});
  return feat;
}

// ---------------------------------------------------------------- lattice polygons, exact oracle
static J gen_area_lattice(Chooser &ch)
{
  J c = J::obj();
  const bool sph = ch.chance(40);
  c["sph"] = sph;
  c["type"] = ch.pick<std::string>({"continental plate", "oceanic plate", "mantle layer"});
  const int L = static_cast<int>(ch.range(3, 8));
  std::vector<ref::IP> v;
  for (int attempt = 0; attempt < 40; ++attempt)
    {
      const bool star = ch.chance(75);
      const int k = static_cast<int>(star ? ch.range(3, 9) : ch.range(3, 4));
      v.clear();
      for (int i = 0; i < k; ++i) v.push_back({ch.range(0, L), ch.range(0, L)});
      if (star)
        {
          const double cx = static_cast<double>(ch.range(0, 2 * L)) * 0.5 + 0.25, cy = static_cast<double>(ch.range(0, 2 * L)) * 0.5 + 0.25;
          std::sort(v.begin(), v.end(), [&](ref::IP a, ref::IP b) {
            const double aa = std::atan2(static_cast<double>(a.y) - cy, static_cast<double>(a.x) - cx), ab = std::atan2(static_cast<double>(b.y) - cy, static_cast<double>(b.x) - cx);
            if (aa != ab) return aa < ab;
            return (a.x - cx) * (a.x - cx) + (a.y - cy) * (a.y - cy) < (b.x - cx) * (b.x - cx) + (b.y - cy) * (b.y - cy);
          });
          v.erase(std::unique(v.begin(), v.end(), [](ref::IP a, ref::IP b) { return a.x == b.x && a.y == b.y; }), v.end());
        }
      if (ref::simple_polygon(v)) break;
      v = {{0, 0}, {L, 0}, {0, L}};
    }
  if (ch.flip()) std::reverse(v.begin(), v.end());
  std::rotate(v.begin(), v.begin() + static_cast<long>(ch.index(v.size())), v.end());
  J jv = J::arr();
  for (auto &p : v) jv.push(jp(static_cast<double>(p.x), static_cast<double>(p.y)));
  c["vertices"] = jv;
  c["L"] = L;
  // 20%: the same polygon written with a vertex listed twice in a row - closed like a GIS ring (first vertex repeated at the end),
  // or any vertex doubled; the footprint is the same set of points
  c["repeat"] = ch.chance(20) ? (ch.flip() ? -2 : static_cast<int>(ch.index(v.size()))) : -1;
  if (sph)
    {
      // lattice step in degrees; origin chosen so that a forced share of footprints straddles +-180 or is written beyond it
      c["step"] = ch.pick<double>({0.5, 2.0, 5.0});
      const int where = static_cast<int>(ch.range(0, 5));
      const double span = c["step"].num() * L;
      double ox;
      if (where == 0) ox = 180 - std::floor(span / 2);           // straddles +180, written with longitudes > 180
      else if (where == 1) ox = -180 - std::floor(span / 2);      // straddles -180, written with longitudes < -180
      else if (where == 2) ox = ch.lattice(185, 300, 5);          // written entirely beyond +180
      else if (where == 3) ox = -ch.lattice(185, 300, 5) - span;  // written entirely beyond -180
      else ox = ch.lattice(-150, 100, 5);
      c["ox"] = ox;
      c["oy"] = ch.lattice(-60, 30, 5);
      c["R"] = ch.pick<double>({6371e3, 3390e3});
    }
  else
    {
      c["step"] = ch.pick<double>({1e3, 25e3, 100e3, 1.0});
      c["ox"] = ch.pick<double>({0.0, -1e6, 3e6, -250e3});
      c["oy"] = ch.pick<double>({0.0, 2e6, -1e6, 125e3});
      c["H"] = ch.lattice(500e3, 3000e3, 100e3);
    }
  const double dmin = c["type"].str() == "mantle layer" ? ch.lattice(0, 300e3, 10e3) : (ch.flip() ? 0.0 : ch.lattice(0, 50e3, 5e3));
  c["dmin"] = dmin;
  c["dmax"] = dmin + ch.lattice(10e3, 300e3, 10e3);
  c["explicit_dmin"] = ch.flip();
  return c;
}

static Result check_area_lattice(const J &c)
{
  Result r;
  const bool sph = c.at("sph").boolean();
  std::vector<ref::IP> v; // in half-steps
  for (auto &p : c.at("vertices").a) v.push_back({2 * p[0].i64(), 2 * p[1].i64()});
  if (!ref::simple_polygon(v)) { r.discard = true; return r; }
  const int L = static_cast<int>(c.at("L").num());
  const double step = c.at("step").num(), ox = c.at("ox").num(), oy = c.at("oy").num();
  const double dmin = c.at("dmin").num(), dmax = c.at("dmax").num();
  g::Frame fr;
  fr.sph = sph;
  if (sph) fr.R = c.at("R").num(); else fr.H = c.at("H").num();
  J root = J::obj();
  g::frame_to_json(fr, root);
  J feat = J::obj();
  feat["model"] = c.at("type").str();
  feat["name"] = "f";
  J coords = J::arr();
  for (auto &p : v) coords.push(jp(ox + step * 0.5 * static_cast<double>(p.x), oy + step * 0.5 * static_cast<double>(p.y)));
  const int repeat = c.has("repeat") ? static_cast<int>(c.at("repeat").num()) : -1;
  if (repeat == -2) coords.push(coords[0]);
  else if (repeat >= 0 && static_cast<size_t>(repeat) < coords.size()) coords.a.insert(coords.a.begin() + repeat, coords[static_cast<size_t>(repeat)]);
  feat["coordinates"] = coords;
  if (dmin != 0 || c.at("explicit_dmin").boolean()) feat["min depth"] = dmin;
  feat["max depth"] = dmax;
  indicator_models(feat);
  root["features"] = J::arr({feat});
  auto W = make_world(root.dump());
  const PropList pl = {{{2, 0, 0}}, {{4, 0, 0}}};
  r.nontrivial = true;
  r.classes.push_back(c.at("type").str());
  r.classes.push_back(sph ? "spherical" : "cartesian");
  if (sph && (ox + step * L > 180 || ox < -180)) r.classes.push_back("footprint written across/beyond +-180");
  if (repeat != -1) r.classes.push_back(repeat == -2 ? "ring closed by repeating the first vertex" : "a vertex listed twice in a row");
  const std::vector<double> depths = {dmin, dmax, 0.5 * (dmin + dmax), dmin - 1.0, dmax + 1.0, std::nextafter(dmax, 0.0), std::nextafter(dmax, 1e300)};
  for (int x = -3; x <= 2 * L + 3; ++x)
    for (int y = -3; y <= 2 * L + 3; ++y)
      {
        const ref::IP p{x, y};
        const bool boundary = ref::on_boundary(v, p);
        if (sph && boundary) continue; // degree -> radian conversion is not exact: boundary points are not decidable
        const bool in_poly = ref::exact_inside(v, p);
        const double a = ox + step * 0.5 * x, b = oy + step * 0.5 * y;
        if (sph && std::fabs(b) > 89) continue;
        for (double depth : depths)
          {
            if (depth < 0 && !sph) continue;
            const bool want = in_poly && depth >= dmin && depth <= dmax;
            const J q = g::make_query(fr, a, b, depth);
            const std::vector<double> out = W->properties(p3(q.at("p")), depth, pl);
            const bool got = out[1] != -1;
            r.inner++;
            if (want) r.inner_nt++;
            if (boundary) r.classes.push_back(want ? "on-boundary-inside-depth" : "on-boundary");
            if ((out[0] == 1.0) != got)
              return Result::fail("indicator-mismatch", "composition indicator " + fmt(out[0]) + " and tag " + fmt(out[1]) + " disagree");
            if (want != got)
              {
                std::string s = c.at("type").str() + " polygon " + coords.dump() + " depth range [" + fmt(dmin) + "," + fmt(dmax) + "], point (" + fmt(a) + "," + fmt(b) + ") depth " + fmt(depth) + ": definition says " + (want ? "inside" : "outside") + ", code says " + (got ? "inside" : "outside") + (boundary ? " (boundary point)" : "");
                const bool depth_issue = in_poly && (depth == dmin || depth == dmax || depth < dmin || depth > dmax);
                return Result::fail(std::string(sph ? "sph-" : "cart-") + (depth_issue ? "depth-range" : (want ? "footprint-false-negative" : "footprint-false-positive")), s);
              }
          }
      }
  return r;
}

// ---------------------------------------------------------------- arbitrary polygons and points, long double oracle with band
static J gen_area_random(Chooser &ch)
{
  J c = J::obj();
  g::Opt o;
  g::Frame fr = g::gen_frame(ch, o);
  c["sph"] = fr.sph; c["R"] = fr.R; c["H"] = fr.H; c["dm"] = fr.depth_method;
  const std::array<double, 2> ctr = g::gen_centre(ch, fr);
  // not on the lattice: perturb the star polygon's vertices
  std::vector<std::array<double, 2>> v = g::star_polygon(ch, fr, ctr, fr.sph ? 2.0 : 150e3, fr.sph ? 12.0 : 900e3);
  for (auto &p : v) { p[0] += ch.real(-0.1, 0.1) * fr.unit(); p[1] += ch.real(-0.1, 0.1) * fr.unit(); }
  c["vertices"] = g::coords_json(v);
  c["type"] = ch.pick<std::string>({"continental plate", "oceanic plate", "mantle layer"});
  c["dmin"] = ch.flip() ? 0.0 : ch.real(0, 100e3);
  c["dmax"] = c["dmin"].num() + ch.real(5e3, 400e3);
  J qs = J::arr();
  const int n = static_cast<int>(ch.range(5, 40));
  for (int i = 0; i < n; ++i)
    {
      const size_t e = ch.index(v.size());
      const auto &v0 = v[e], &v1 = v[(e + 1) % v.size()];
      const double s = ch.real(0, 1), t = ch.chance(50) ? ch.real(0.9, 1.1) : ch.real(0, 2.5);
      const double ex = v0[0] + s * (v1[0] - v0[0]), ey = v0[1] + s * (v1[1] - v0[1]);
      double a = ctr[0] + t * (ex - ctr[0]), b = ctr[1] + t * (ey - ctr[1]);
      if (fr.sph) b = std::max(-89.0, std::min(89.0, b));
      const double depth = ch.chance(70) ? ch.real(c["dmin"].num(), c["dmax"].num()) : ch.real(0, c["dmax"].num() * 1.3);
      qs.push(jp(a, b, depth));
    }
  c["queries"] = qs;
  return c;
}

static Result check_area_random(const J &c)
{
  Result r;
  g::Frame fr;
  fr.sph = c.at("sph").boolean(); fr.R = c.at("R").num(); fr.H = c.at("H").num(); fr.depth_method = c.at("dm").str();
  std::vector<std::array<double, 2>> v;
  for (auto &p : c.at("vertices").a) v.push_back({{p[0].num(), p[1].num()}});
  const double dmin = c.at("dmin").num(), dmax = c.at("dmax").num();
  J root = J::obj();
  g::frame_to_json(fr, root);
  J feat = J::obj();
  feat["model"] = c.at("type").str();
  feat["name"] = "f";
  feat["coordinates"] = c.at("vertices");
  feat["min depth"] = dmin;
  feat["max depth"] = dmax;
  indicator_models(feat);
  root["features"] = J::arr({feat});
  auto W = make_world(root.dump());
  r.classes.push_back(fr.sph ? "spherical" : "cartesian");
  for (auto &qq : c.at("queries").a)
    {
      const double a = qq[0].num(), b = qq[1].num(), depth = qq[2].num();
      int in = ref::inside_ld(v, a, b, 1e-9);
      if (fr.sph && in != 1)
        for (int k : {-1, 1})
          {
            const int in2 = ref::inside_ld(v, a + 360.0 * k, b, 1e-9);
            if (in2 == 1) in = 1; else if (in2 == 0 && in == -1) in = 0;
          }
      if (in == 0 || std::fabs(depth - dmin) < 1e-6 || std::fabs(depth - dmax) < 1e-6) { r.classes.push_back("boundary-band(skipped)"); continue; }
      const bool want = in == 1 && depth >= dmin && depth <= dmax;
      const J q = g::make_query(fr, a, b, depth);
      const bool got = W->properties(p3(q.at("p")), depth, {{{4, 0, 0}}})[0] != -1;
      r.inner++;
      if (want) { r.inner_nt++; r.nontrivial = true; }
      if (want != got)
        return Result::fail(std::string(fr.sph ? "sph-" : "cart-") + (want ? "footprint-false-negative" : "footprint-false-positive"), c.at("type").str() + " polygon " + c.at("vertices").dump() + " depth [" + fmt(dmin) + "," + fmt(dmax) + "] point " + qq.dump() + ": definition says " + (want ? "inside" : "outside") + ", code says " + (got ? "inside" : "outside"));
    }
  return r;
}

// ---------------------------------------------------------------- local (point-wise) min and max depth of an area feature
// "the depth lies in the closed interval between its LOCAL min depth and max depth": both limits may be given as values at points.
// Oracle: each limit is a number, the one-entry list form, or a tilted plane written as samples of one affine function at every
// corner (plus, sometimes, at interior points): whatever triangulation is chosen reproduces the plane, so the local interval at
// a point is known in closed form. Footprint: star polygon, points generated on rays from its kernel (inside / outside by
// construction).
static J gen_area_local_depth(Chooser &ch)
{
  g::Opt o;
  g::Frame fr = g::gen_frame(ch, o);
  J root = J::obj();
  g::frame_to_json(fr, root);
  g::Opt none; none.grains = false; none.velocity = false; none.custom_tags = false;
  g::FM m;
  const std::string type = ch.pick<std::string>({"continental plate", "oceanic plate", "mantle layer"});
  J feat;
  for (int attempt = 0; attempt < 20; ++attempt)
    {
      m = g::FM();
      feat = g::area_feature(ch, fr, none, type, g::gen_centre(ch, fr), 0, m);
      bool zero = false;
      for (auto &p : m.coords) if (p[0] == 0 || p[1] == 0) zero = true; // listed finding C11: a value at a corner with a zero coordinate
      if (!zero) break;
    }
  feat.erase("temperature models"); feat.erase("composition models"); feat.erase("min depth"); feat.erase("max depth");
  double ext = 0;
  for (auto &p : m.coords) ext = std::max(ext, std::max(std::fabs(p[0] - m.kernel[0]), std::fabs(p[1] - m.kernel[1])));
  J c = J::obj();
  // form of a limit: 0 absent, 1 number, 2 one-entry list [[v]], 3 plane at the corners, 4 plane at corners and interior points
  auto limit = [&](const char *key, int form, double base, double amp, J &plane) {
    plane = J::arr({J(base), J(0.0), J(0.0)});
    if (form == 0) return;
    if (form == 1) { feat[key] = base; return; }
    if (form == 2) { feat[key] = J::arr({J::arr({J(base)})}); return; }
    const double a = ch.real(-1, 1) * amp / (2 * ext), b = ch.real(-1, 1) * amp / (2 * ext);
    plane = J::arr({J(base), J(a), J(b)});
    auto f = [&](double x, double y) { return base + a * (x - m.kernel[0]) + b * (y - m.kernel[1]); };
    std::vector<J> entries;
    auto is_corner = [&](const J &e) { for (auto &p : m.coords) if (e[1][0][0].num() == p[0] && e[1][0][1].num() == p[1]) return true; return false; };
    for (auto &p : m.coords) entries.push_back(J::arr({J(f(p[0], p[1])), J::arr({jp(p[0], p[1])})}));
    if (form == 4)
      {
        const int ni = static_cast<int>(ch.range(1, 6));
        for (int i = 0; i < ni; ++i)
          {
            const size_t e = ch.index(m.coords.size());
            const auto &v0 = m.coords[e], &v1 = m.coords[(e + 1) % m.coords.size()];
            const double s = ch.real(0.05, 0.95), t = ch.real(0.05, 0.85);
            const double x = m.kernel[0] + t * (v0[0] + s * (v1[0] - v0[0]) - m.kernel[0]), y = m.kernel[1] + t * (v0[1] + s * (v1[1] - v0[1]) - m.kernel[1]);
            entries.push_back(J::arr({J(f(x, y)), J::arr({jp(x, y)})}));
          }
        // the entries in any order (several points may also share one entry when their values agree - not generated: values differ)
        for (size_t i = entries.size(); i > 1; --i) std::swap(entries[i - 1], entries[ch.index(i)]);
      }
    // the bare default (60%): anywhere before the first corner entry - every corner is listed after it, so it never shows, and
    // interior points written before it are not its business
    size_t first_corner = 0;
    while (first_corner < entries.size() && !is_corner(entries[first_corner])) ++first_corner;
    const size_t bare_at = ch.chance(60) ? ch.index(first_corner + 1) : entries.size() + 1;
    J sf = J::arr();
    for (size_t i = 0; i < entries.size(); ++i)
      {
        if (i == bare_at) sf.push(J::arr({J(base)}));
        sf.push(entries[i]);
      }
    feat[key] = sf;
  };
  J pmin, pmax;
  const int fmin = static_cast<int>(ch.range(0, 4)), fmax = ch.chance(8) ? 0 : static_cast<int>(ch.range(1, 4));
  const double bmin = fmin == 0 ? 0.0 : ch.lattice(30e3, 90e3, 5e3);
  limit("min depth", fmin, bmin, 25e3, pmin);   // the plane deviates from its base by at most the amplitude
  limit("max depth", fmax, ch.lattice(200e3, 320e3, 10e3), 80e3, pmax);
  indicator_models(feat);
  root["features"] = J::arr({feat});
  c["world"] = root.dump();
  c["fmin"] = fmin; c["fmax"] = fmax;
  c["pmin"] = pmin; c["pmax"] = pmax;
  c["cx"] = m.kernel[0]; c["cy"] = m.kernel[1];
  c["sph"] = fr.sph; c["R"] = fr.R; c["H"] = fr.H;
  J qs = J::arr();
  const int n = static_cast<int>(ch.range(10, 40));
  for (int i = 0; i < n; ++i)
    {
      const size_t e = ch.index(m.coords.size());
      const auto &v0 = m.coords[e], &v1 = m.coords[(e + 1) % m.coords.size()];
      const double s = ch.real(0, 1);
      const bool outside = ch.chance(12);
      const double t = outside ? ch.real(1.02, 1.6) : (ch.chance(10) ? 0.0 : ch.real(0, 0.98));
      const double x = m.kernel[0] + t * (v0[0] + s * (v1[0] - v0[0]) - m.kernel[0]), y = m.kernel[1] + t * (v0[1] + s * (v1[1] - v0[1]) - m.kernel[1]);
      if (fr.sph && std::fabs(y) > 89) continue;
      const double dx = x - m.kernel[0], dy = y - m.kernel[1];
      const double zmin = pmin[0].num() + pmin[1].num() * dx + pmin[2].num() * dy;
      const double zmax = fmax == 0 ? 400e3 : pmax[0].num() + pmax[1].num() * dx + pmax[2].num() * dy;
      // depth: next to the local top, next to the local bottom (either side, 1 m .. 5 km away), between the smallest value of the
      // whole surface and the local one, or anywhere
      const int w = static_cast<int>(ch.range(0, 5));
      const double off = ch.pick<double>({1.0, 30.0, 1e3, 5e3}) * (ch.flip() ? 1 : -1);
      double depth;
      if (w == 0) depth = zmin + off;
      else if (w == 1) depth = zmax + off;
      else if (w == 2) { const double lo = std::max(0.0, pmin[0].num() - 30e3); depth = zmin > lo ? ch.real(lo, zmin) : lo; }
      else if (w == 3) depth = ch.real(zmax, zmax + 90e3);
      else depth = ch.real(0, 420e3);
      if (depth < 0) depth = 0;
      J q = g::make_query(fr, x, y, depth);
      q["outside"] = outside;
      qs.push(q);
    }
  c["queries"] = qs;
  return c;
}

static Result check_area_local_depth(const J &c)
{
  Result r;
  const J root = J::parse(c.at("world").str());
  auto W = make_world(c.at("world").str());
  const J &feat = root.at("features")[0];
  const int fmin = static_cast<int>(c.at("fmin").num()), fmax = static_cast<int>(c.at("fmax").num());
  static const char *forms[5] = {"absent", "number", "one-entry list", "plane at the corners", "plane at corners and interior points"};
  r.classes.push_back(feat.at("model").str());
  r.classes.push_back(std::string("min depth: ") + forms[fmin]);
  r.classes.push_back(std::string("max depth: ") + forms[fmax]);
  r.classes.push_back(c.at("sph").boolean() ? "spherical" : "cartesian");
  const J &pmin = c.at("pmin"), &pmax = c.at("pmax");
  for (const auto &q : c.at("queries").a)
    {
      const double depth = q.at("depth").num();
      const double dx = q.at("nat")[0].num() - c.at("cx").num(), dy = q.at("nat")[1].num() - c.at("cy").num();
      const double zmin = pmin[0].num() + pmin[1].num() * dx + pmin[2].num() * dy;
      const double zmax = fmax == 0 ? std::numeric_limits<double>::max() : pmax[0].num() + pmax[1].num() * dx + pmax[2].num() * dy;
      const bool outside = q.at("outside").boolean();
      // the planes are reproduced up to rounding of the barycentric interpolation: stay 1e-6 relative (a few decimetres) away
      if (!outside && (std::fabs(depth - zmin) < 1e-6 * (1 + depth) || std::fabs(depth - zmax) < 1e-6 * (1 + depth))) { r.classes.push_back("on-a-limit(skipped)"); continue; }
      const bool want = !outside && depth >= zmin && depth <= zmax;
      const std::vector<double> out = W->properties(p3(q.at("p")), depth, {{{2, 0, 0}}, {{4, 0, 0}}});
      const bool got = out[1] != -1;
      r.inner++;
      if (!outside) { r.inner_nt++; r.nontrivial = true; }
      if (!outside && std::fabs(depth - zmin) <= 30) r.classes.push_back("within 30 m of the local min depth");
      if (!outside && std::fabs(depth - zmax) <= 30) r.classes.push_back("within 30 m of the local max depth");
      if ((out[0] == 1.0) != got)
        return Result::fail("indicator-mismatch", "composition indicator " + fmt(out[0]) + " and tag " + fmt(out[1]) + " disagree; query " + q.dump());
      if (want != got)
        {
          const char *sig = outside ? "local-depth-footprint" : (depth < zmin ? "local-min-depth-false-positive" : (depth > zmax ? "local-max-depth-false-positive" : "local-depth-false-negative"));
          return Result::fail(sig, feat.at("model").str() + " with min depth " + (feat.has("min depth") ? feat.at("min depth").dump() : std::string("(absent)")) + " and max depth " + (feat.has("max depth") ? feat.at("max depth").dump() : std::string("(absent)")) +
                              ": at " + q.at("nat").dump() + " the local interval is [" + fmt(zmin) + "," + fmt(zmax) + "], depth " + fmt(depth) + (outside ? " (outside the polygon)" : "") + ": definition says " + (want ? "inside" : "outside") + ", code says " + (got ? "inside" : "outside"));
        }
    }
  return r;
}

// ---------------------------------------------------------------- plume
static J gen_plume(Chooser &ch)
{
  J c = J::obj();
  const bool sph = ch.chance(35);
  c["sph"] = sph;
  c["R"] = 6371e3;
  c["H"] = ch.lattice(1000e3, 3000e3, 100e3);
  const int n = static_cast<int>(ch.range(1, 5));
  const double km = sph ? 0.009 : 1e3;
  const double cx0 = sph ? ch.real(-140, 140) : ch.real(-1e6, 1e6), cy0 = sph ? ch.real(-50, 50) : ch.real(-1e6, 1e6);
  J secs = J::arr();
  double d = ch.lattice(50e3, 300e3, 10e3);
  double rot = ch.lattice(0, 345, 15);
  for (int i = 0; i < n; ++i)
    {
      J s = J::obj();
      s["depth"] = d;
      s["cx"] = cx0 + ch.real(-80, 80) * km;
      s["cy"] = cy0 + ch.real(-80, 80) * km;
      double a = ch.real(40, 300) * km;
      if (i == n - 1 && n > 1 && ch.chance(12)) a = 0; // a plume that closes at its deepest section
      s["a"] = a;
      s["e"] = ch.chance(30) ? 0.0 : ch.lattice(0, 0.9375, 0.0625);
      // rotation angles anywhere in [0,360), with a forced share of neighbouring pairs straddling 0/360 in either sense
      if (i > 0)
        {
          const int w = static_cast<int>(ch.range(0, 3));
          if (w == 0) rot = std::fmod(rot + ch.lattice(190, 340, 10), 360.0);       // numerically far, cyclically near
          else if (w == 1) rot = std::fmod(rot + 360 - ch.lattice(190, 340, 10), 360.0);
          else rot = std::fmod(rot + ch.lattice(0, 170, 10), 360.0);
        }
      s["rot"] = rot;
      secs.push(s);
      d += ch.lattice(50e3, 400e3, 10e3);
    }
  c["sections"] = secs;
  const double d0 = secs[0].at("depth").num();
  c["dmin"] = ch.chance(40) ? d0 : d0 - ch.lattice(10e3, 50e3, 10e3);
  c["dmax"] = secs[secs.size() - 1].at("depth").num() + ch.lattice(0, 400e3, 50e3);
  J qs = J::arr();
  const int nq = static_cast<int>(ch.range(10, 60));
  for (int i = 0; i < nq; ++i)
    {
      // a depth class, then a point near the interpolated centre
      const int cls = static_cast<int>(ch.range(0, 5));
      double depth;
      const double dmin = c["dmin"].num(), dmax = c["dmax"].num(), dl = secs[secs.size() - 1].at("depth").num();
      if (cls == 0) depth = ch.real(dmin, d0);                         // head (if any)
      else if (cls == 1) depth = ch.real(d0, dl);                      // between sections
      else if (cls == 2) depth = ch.real(dl, dmax);                    // below the deepest section
      else if (cls == 3) depth = ch.pick<double>({dmin, dmax, d0, dl});
      else if (cls == 4) depth = ch.flip() ? dmin - ch.real(1, 1e4) : dmax + ch.real(1, 1e4);
      else depth = ch.real(dmin, dmax);
      const size_t si = ch.index(secs.size());
      const double ang = ch.real(0, 2 * PI), rad = ch.real(0, 1.6) * std::max(secs[si].at("a").num(), 20 * km);
      qs.push(jp(secs[si].at("cx").num() + rad * std::cos(ang), secs[si].at("cy").num() + rad * std::sin(ang), depth));
    }
  c["queries"] = qs;
  return c;
}

static Result check_plume(const J &c)
{
  Result r;
  g::Frame fr;
  fr.sph = c.at("sph").boolean(); fr.R = c.at("R").num(); fr.H = c.at("H").num();
  ref::Plume P;
  J root = J::obj();
  g::frame_to_json(fr, root);
  J feat = J::obj();
  feat["model"] = "plume"; feat["name"] = "p";
  J coords = J::arr(), depths = J::arr(), axes = J::arr(), ecc = J::arr(), rot = J::arr();
  for (auto &s : c.at("sections").a)
    {
      P.depths.push_back(s.at("depth").num()); P.cx.push_back(s.at("cx").num()); P.cy.push_back(s.at("cy").num());
      P.a.push_back(s.at("a").num()); P.e.push_back(s.at("e").num()); P.rot_deg.push_back(s.at("rot").num());
      coords.push(jp(s.at("cx").num(), s.at("cy").num())); depths.push(s.at("depth")); axes.push(s.at("a")); ecc.push(s.at("e")); rot.push(s.at("rot"));
    }
  P.dmin = c.at("dmin").num(); P.dmax = c.at("dmax").num();
  for (size_t i = 1; i < P.rot_deg.size(); ++i) if (std::fabs(std::fabs(P.rot_deg[i] - P.rot_deg[i - 1]) - 180) < 1e-9) { r.discard = true; return r; } // no shortest way round
  feat["coordinates"] = coords; feat["cross section depths"] = depths; feat["semi-major axis"] = axes; feat["eccentricity"] = ecc; feat["rotation angles"] = rot;
  feat["min depth"] = P.dmin; feat["max depth"] = P.dmax;
  indicator_models(feat);
  root["features"] = J::arr({feat});
  auto W = make_world(root.dump());
  r.classes.push_back(fr.sph ? "spherical" : "cartesian");
  for (auto &qq : c.at("queries").a)
    {
      const double a = qq[0].num(), b = qq[1].num(), depth = qq[2].num();
      if (fr.sph && std::fabs(b) > 89) continue;
      bool degenerate = false;
      const double qv = ref::plume_q(P, a, b, depth, &degenerate);
      if (qv >= 0 && std::fabs(qv - 1) < 1e-9) { r.classes.push_back("boundary-band(skipped)"); continue; }
      if (std::fabs(depth - P.dmin) < 1e-6 * 0 && false) continue;
      const bool want = qv >= 0 && qv <= 1;
      const J q = g::make_query(fr, a, b, depth);
      // depth handed to the library is exactly the generated one; in spherical worlds the radius is R-depth
      const bool got = W->properties(p3(q.at("p")), depth, {{{4, 0, 0}}})[0] != -1;
      r.inner++;
      std::string cls = depth < P.depths[0] ? "head" : (depth >= P.depths.back() ? "below-deepest-section" : "between-sections");
      if (qv == -1) cls = "outside-depth-range";
      if (degenerate) cls = "degenerate-section(axis 0)";
      r.classes.push_back(cls);
      if (want) { r.inner_nt++; r.nontrivial = true; }
      if (want != got)
        {
          std::string sig = want ? "plume-false-negative" : "plume-false-positive";
          if (degenerate) sig = "plume-degenerate-ellipse-contains-everything";
          else if (cls == "between-sections") sig += "-between-sections";
          else if (cls == "head") sig += "-head";
          return Result::fail(sig, "plume " + c.at("sections").dump() + " depth range [" + fmt(P.dmin) + "," + fmt(P.dmax) + "], point " + qq.dump() + " (" + cls + "): definition gives q=" + fmt(qv) + " => " + (want ? "inside" : "outside") + ", code says " + (got ? "inside" : "outside"));
        }
    }
  return r;
}

int main(int argc, char **argv)
{
  return run_main("C04", argc, argv,
  {
    {"area_lattice", "single area feature on a lattice polygon (3..9 vertices, convex/concave, both orientations; spherical footprints written across and beyond +-180) x every lattice and half-lattice point of the enlarged box x depths {min, max, mid, just outside, neighbours of max}; exact integer oracle, boundary included in cartesian. Non-trivial: every case (comparisons counted separately)", 60, gen_area_lattice, check_area_lattice},
    {"area_random", "off-lattice polygons and points (half of them within 10% of an edge), long-double oracle with 1e-9 ambiguity band. Non-trivial: point inside", 150, gen_area_random, check_area_random},
    {"area_local_depth", "single area feature (all three types, both coordinate systems, star polygon) whose min and max depth are each absent / a number / the one-entry list / a tilted plane given at every corner / the same plane also given at 1..6 interior points in any order; points on rays from the kernel (88% inside the polygon) at depths next to the local top and bottom (1 m .. 5 km to either side), between the surface's extreme value and the local one, or anywhere; oracle: closed-form local interval of the statement. Non-trivial: point inside the polygon", 150, gen_area_local_depth, check_area_local_depth},
    {"plume", "plumes with 1..5 cross sections (axis 0 at the deepest section in 12%, rotation pairs straddling 0/360 in both senses, head / no head) x 10..60 points per depth class; oracle: interpolated ellipse / half-ellipsoid of the statement with 1e-9 band. Non-trivial: point inside", 150, gen_plume, check_plume},
  });
}
