// C14 — concurrent queries are race-free and gwb-grid output does not depend on -j.
// The generated cases are executed by ThreadSanitizer-instrumented binaries (engine/tsan/c14_threads.cc and the
// repository's gwb-grid built in the tsan flavour); this executable generates, launches and judges.
#include "../gen.h"

#include <sys/wait.h>

using namespace vf;

static int run_cmd(const std::string &cmd, std::string &out)
{
  out.clear();
  FILE *p = popen((cmd + " 2>&1").c_str(), "r");
  if (!p) return -1;
  char buf[4096];
  while (size_t n = fread(buf, 1, sizeof buf, p)) out.append(buf, n);
  const int st = pclose(p);
  return WIFEXITED(st) ? WEXITSTATUS(st) : 128 + (WIFSIGNALED(st) ? WTERMSIG(st) : 0);
}

// ---------------------------------------------------------------- (a) threads on one world
static J gen_threads(Chooser &ch)
{
  g::Opt o;
  o.min_features = 1; o.max_features = 4;
  o.operations = true; o.model_ranges = true; o.water = true; o.cross_section = 1; o.global_constants = ch.chance(30);
  o.depth_surfaces = true; o.depth_surface_interior = 8; // triangulated depth surfaces: objects shared by all threads that are searched per query
  g::GW w = g::gen_world(ch, o);
  J c = J::obj();
  c["world"] = w.root.dump();
  const int nt = static_cast<int>(ch.pick<int>({2, 3, 4, 8, 16, 32}));
  const bool has_cs = w.root.has("cross section");
  // a shared pool of points inside the features: several threads hit the same feature at the same time
  J pool = g::gen_queries(ch, w, 12, 95);
  J threads = J::arr();
  for (int t = 0; t < nt; ++t)
    {
      J stream = J::arr();
      const int n = static_cast<int>(ch.range(5, 30));
      for (int i = 0; i < n; ++i)
        {
          J s = J::obj();
          J q = ch.chance(60) ? pool[ch.index(pool.size())] : g::gen_query(ch, w, ch.chance(85) ? &w.feats[ch.index(w.feats.size())] : nullptr);
          const bool d2 = has_cs && ch.chance(30);
          s["dim"] = d2 ? 2 : 3;
          if (d2)
            {
              const double depth = q.at("depth").num();
              if (w.fr.sph) { const double th = ch.real(-5, 20) * DEG, rr = w.fr.R - depth; q["p2"] = jp(rr * std::cos(th), rr * std::sin(th)); }
              else q["p2"] = jp(ch.real(-300e3, 900e3), w.fr.H - depth);
            }
          s["q"] = q;
          s["props"] = g::gen_props(ch, 6);
          s["via_c"] = ch.chance(30); // through the C interface (its own marshalling of the property list) instead of World::properties
          // the public distance query of line features is part of the concurrent API surface
          std::vector<std::string> lines;
          for (auto &m : w.feats) if (m.line()) lines.push_back(m.name);
          if (!lines.empty() && !d2 && ch.chance(25)) s["plane"] = lines[ch.index(lines.size())];
          stream.push(s);
        }
      threads.push(stream);
    }
  c["threads"] = threads;
  c["rounds"] = 2;
  return c;
}

static Result check_threads(const J &c)
{
  Result r;
  const std::string exe = env("VERIF_TSAN_EXE", "");
  if (exe.empty()) throw std::runtime_error("VERIF_TSAN_EXE not set");
  const std::string file = scratch_dir() + "/c14case.json";
  write_file(file, c.dump());
  std::string out;
  const int rc = run_cmd("TSAN_OPTIONS='exitcode=66 halt_on_error=0 report_signal_unsafe=0' '" + exe + "' '" + file + "'", out);
  const size_t nt = c.at("threads").size();
  r.nontrivial = nt >= 2;
  r.inner = 0;
  for (auto &t : c.at("threads").a) r.inner += t.size();
  r.inner_nt = r.inner;
  r.classes.push_back("threads=" + std::to_string(nt));
  if (out.find("ThreadSanitizer: data race") != std::string::npos || rc == 66)
    {
      // first report only
      const size_t a = out.find("WARNING: ThreadSanitizer");
      return Result::fail("data-race", "ThreadSanitizer reports a data race with " + std::to_string(nt) + " threads querying one world:\n" + out.substr(a == std::string::npos ? 0 : a, 1800));
    }
  if (out.find("RESULT mismatches=0 ") != std::string::npos && rc == 0) return r;
  if (out.find("RESULT mismatches=") != std::string::npos)
    return Result::fail("concurrent-answer-differs", "a thread got an answer that differs from the single-thread answer: " + out.substr(out.find("RESULT"), 100));
  return Result::fail("thread-run-crashed", "the threaded run ended with status " + std::to_string(rc) + ": " + out.substr(0, 600));
}

// ---------------------------------------------------------------- (b) gwb-grid -j
static J gen_grid(Chooser &ch)
{
  g::Opt o;
  o.min_features = 1; o.max_features = 4;
  o.allow_spherical = false; // the grid below is cartesian; chunk/sphere grids are exercised in C18
  o.cross_section = 2; o.operations = true; o.depth_surfaces = true;
  g::GW w = g::gen_world(ch, o);
  J c = J::obj();
  c["world"] = w.root.dump();
  const int dim = ch.flip() ? 2 : 3;
  c["dim"] = dim;
  const std::array<double, 2> k = w.feats[0].kernel;
  c["x_min"] = (dim == 2 ? -200e3 : k[0] - 600e3); c["x_max"] = (dim == 2 ? 900e3 : k[0] + 600e3);
  c["y_min"] = k[1] - 600e3; c["y_max"] = k[1] + 600e3;
  c["z_min"] = w.fr.H - ch.lattice(200e3, 500e3, 50e3); c["z_max"] = w.fr.H;
  // node counts chosen so that the number of nodes is smaller than, equal to, not divisible by, and much larger than the thread count
  c["nx"] = static_cast<int>(ch.range(1, dim == 2 ? 40 : 9)); c["ny"] = static_cast<int>(ch.range(1, 7)); c["nz"] = static_cast<int>(ch.range(1, dim == 2 ? 25 : 7));
  c["compositions"] = static_cast<int>(ch.range(0, 3));
  c["j"] = ch.pick<int>({2, 3, 5, 7, 16, 40});
  c["flags"] = ch.pick<std::string>({"", "--filtered", "--by-tag", "--filtered --by-tag"});
  return c;
}

static Result check_grid(const J &c)
{
  Result r;
  const std::string exe = env("VERIF_TSAN_GRID", "");
  if (exe.empty()) throw std::runtime_error("VERIF_TSAN_GRID not set");
  const std::string dir = scratch_dir() + "/c14grid";
  { std::string cmd = "rm -rf '" + dir + "' && mkdir -p '" + dir + "/j1' '" + dir + "/jn'"; if (std::system(cmd.c_str())) {} }
  write_file(dir + "/w.wb", c.at("world").str());
  std::string grid;
  const int dim = static_cast<int>(c.at("dim").num());
  grid += "grid_type = cartesian\ndim = " + std::to_string(dim) + "\ncompositions = " + std::to_string(static_cast<int>(c.at("compositions").num())) + "\nvtu_output_format = ASCII\n";
  for (const char *k : {"x_min", "x_max", "y_min", "y_max", "z_min", "z_max"}) grid += std::string(k) + " = " + fmt(c.at(k).num()) + "\n";
  grid += "n_cell_x = " + std::to_string(static_cast<int>(c.at("nx").num())) + "\nn_cell_y = " + std::to_string(static_cast<int>(c.at("ny").num())) + "\nn_cell_z = " + std::to_string(static_cast<int>(c.at("nz").num())) + "\n";
  write_file(dir + "/g.grid", grid);
  const int j = static_cast<int>(c.at("j").num());
  const size_t nodes = static_cast<size_t>((c.at("nx").num() + 1) * (c.at("nz").num() + 1) * (dim == 3 ? c.at("ny").num() + 1 : 1));
  r.nontrivial = nodes % static_cast<size_t>(j) != 0;
  r.classes.push_back(nodes < static_cast<size_t>(j) ? "fewer nodes than threads" : (nodes % static_cast<size_t>(j) ? "nodes not divisible by threads" : "nodes divisible by threads"));
  r.inner = 1; r.inner_nt = r.nontrivial;
  std::string out1, outn;
  const std::string tsan = "TSAN_OPTIONS='exitcode=66 halt_on_error=0 report_signal_unsafe=0' ";
  const int rc1 = run_cmd("cd '" + dir + "/j1' && " + tsan + "'" + exe + "' -j 1 " + c.at("flags").str() + " ../w.wb ../g.grid", out1);
  const int rcn = run_cmd("cd '" + dir + "/jn' && " + tsan + "'" + exe + "' -j " + std::to_string(j) + " " + c.at("flags").str() + " ../w.wb ../g.grid", outn);
  if (outn.find("ThreadSanitizer: data race") != std::string::npos || rcn == 66)
    {
      const size_t a = outn.find("WARNING: ThreadSanitizer");
      return Result::fail("grid-data-race", "ThreadSanitizer reports a data race in gwb-grid -j " + std::to_string(j) + ":\n" + outn.substr(a == std::string::npos ? 0 : a, 1800));
    }
  if (rc1 != rcn) return Result::fail("grid-exit-status", "gwb-grid -j 1 exits with " + std::to_string(rc1) + ", -j " + std::to_string(j) + " with " + std::to_string(rcn) + ": " + outn.substr(0, 400));
  if (rc1 != 0) { r.discard = true; r.msg = out1.substr(0, 300); return r; }
  std::string diff;
  const int rd = run_cmd("cd '" + dir + "' && diff -rq j1 jn", diff);
  if (rd != 0) return Result::fail("grid-output-depends-on-j", "gwb-grid writes different files for -j 1 and -j " + std::to_string(j) + " (" + std::to_string(nodes) + " nodes): " + diff.substr(0, 400));
  std::string ls;
  run_cmd("ls '" + dir + "/j1' | wc -l", ls);
  if (std::atoi(ls.c_str()) < 1) return Result::fail("grid-no-output", "gwb-grid wrote no file");
  return r;
}

int main(int argc, char **argv)
{
  return run_main("C14", argc, argv,
  {
    {"threads_tsan", "deterministic worlds (all feature/model types incl. the re-entrant tian water content) x 2..32 threads, each with its own stream of 5..30 batched 2D/3D requests (30% through the C interface properties_2d/3d) and distance_to_plane calls, 60% of the points drawn from a shared pool inside the features; executed twice per thread behind a barrier under ThreadSanitizer. Oracle: no TSan report and every answer bit-equal to the single-thread answer. Non-trivial: >=2 threads", 25, gen_threads, check_threads},
    {"grid_j", "cartesian 2D/3D grids with 1..40 x 1..7 x 1..25 cells (node counts below, equal to, not divisible by and far above the thread count) x -j in {2,3,5,7,16,40} x --filtered/--by-tag, run with the ThreadSanitizer build of gwb-grid: all output files byte-identical to the -j 1 run, no TSan report. Non-trivial: node count not divisible by the thread count", 25, gen_grid, check_grid},
  });
}
