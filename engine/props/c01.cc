// C01 — query answers are a pure function of the input file and the query.
#include "../gen.h"
#include "../procref.h"

using namespace vf;
namespace WB = WorldBuilder;

// the same world with other numbers: every temperature-like parameter moved, fractions halved, velocities scaled - same geometry,
// same models, different answers at every point
static void perturb_parameters(J &j)
{
  if (j.is_obj())
    for (auto &kv : j.o)
      {
        J &v = kv.second;
        if (v.is_num() && (kv.first == "temperature" || kv.first == "potential mantle temperature" || kv.first == "top temperature" || kv.first == "bottom temperature" || kv.first == "center temperature" || kv.first == "side temperature" || kv.first == "surface temperature"))
          { if (v.num() >= 0) v = J(v.num() + 137.0); }
        else if (v.is_num() && (kv.first == "plate velocity" || kv.first == "spreading velocity" || kv.first == "subducting velocity")) v = J(v.num() * 1.25);
        else if (kv.first == "fractions" && v.is_arr()) { for (auto &e : v.a) if (e.is_num()) e = J(e.num() * 0.5); }
        else perturb_parameters(v);
      }
  else if (j.is_arr()) for (auto &e : j.a) perturb_parameters(e);
}

static J gen_history(Chooser &ch, bool two_d)
{
  J c = J::obj();
  // 35%: two sibling worlds (same file, other numbers) that receive every request one after the other: whatever the library keeps
  // between calls - per thread, per process, keyed by position - is offered the chance to answer for the wrong world
  const bool siblings = ch.chance(35);
  const int nworlds = siblings ? 2 : static_cast<int>(ch.range(1, 3));
  J worlds = J::arr();
  std::vector<g::GW> gws;
  for (int i = 0; i < nworlds; ++i)
    {
      g::Opt o;
      o.min_features = 1; o.max_features = 5;
      o.operations = true; o.model_ranges = true; o.force_surface = true; o.global_constants = ch.flip(); o.water = true;
      o.cross_section = two_d ? 2 : 1;
      o.depth_surfaces = true; // point-wise max depths: parsed with the world's own coordinate system, whatever was parsed before
      g::GW w = (siblings && i == 1) ? gws[0] : g::gen_world(ch, o);
      if (siblings && i == 1)
        {
          perturb_parameters(w.root);
          // ... and other world-level constants (every model reads them through its world: thermal diffusivity in the cooling models,
          // expansivity / specific heat / gravity in every adiabat)
          auto scale = [&](const char *key, double dflt, double f) { w.root[key] = (w.root.has(key) ? w.root.at(key).num() : dflt) * f; };
          scale("thermal diffusivity", 0.804e-6, 1.75);
          scale("thermal expansion coefficient", 3.5e-5, 0.8);
          scale("specific heat", 1250, 1.2);
          if (w.root.has("gravity model") && w.root.at("gravity model").has("magnitude")) w.root["gravity model"]["magnitude"] = w.root.at("gravity model").at("magnitude").num() * 0.9;
          else { J g = J::obj(); g["model"] = "uniform"; g["magnitude"] = 8.5; w.root["gravity model"] = g; }
        }
      if (!siblings)
        {
          // feature names from one pool for all worlds, in an order of their own in each: the same name then sits at different
          // positions of different worlds (names are how distance_to_plane finds its feature)
          std::vector<std::string> pool = {"alpha", "beta", "gamma", "delta", "epsilon", "zeta"};
          for (size_t k = pool.size(); k > 1; --k) std::swap(pool[k - 1], pool[ch.index(k)]);
          for (size_t k = 0; k < w.root["features"].size() && k < pool.size(); ++k) w.root["features"][k]["name"] = pool[k];
        }
      worlds.push(J(w.root.dump()));
      gws.push_back(w);
    }
  c["worlds"] = worlds;
  c["siblings"] = siblings;
  J steps = J::arr();
  const int n = static_cast<int>(ch.range(3, 25));
  for (int i = 0; i < n; ++i)
    {
      J s = J::obj();
      const size_t wi = ch.index(gws.size());
      const g::GW &w = gws[wi];
      s["w"] = static_cast<int>(wi);
      J q = g::gen_query(ch, w, (!w.feats.empty() && ch.chance(80)) ? &w.feats[ch.index(w.feats.size())] : nullptr);
      if (ch.chance(10)) q = g::make_query(w.fr, q.at("nat")[0].num(), q.at("nat")[1].num(), 0.0);
      // 8%: just above or well above the surface (a negative depth is not depth zero: nothing is forced there)
      else if (ch.chance(8)) q = g::make_query(w.fr, q.at("nat")[0].num(), q.at("nat")[1].num(), ch.pick<double>({-1e-9, -1.0, -250.0, -5e3}));
      const bool use2d = two_d && w.root.has("cross section") && ch.chance(75);
      s["dim"] = use2d ? 2 : 3;
      if (use2d)
        {
          // a 2D point (x,z): along-section coordinate and height / radius
          const double depth = q.at("depth").num();
          if (w.fr.sph)
            {
              const double th = ch.real(-8, 25) * DEG, rr = w.fr.R - depth;
              q["p2"] = jp(rr * std::cos(th), rr * std::sin(th));
            }
          else q["p2"] = jp(ch.real(-300e3, 900e3), w.fr.H - depth);
        }
      s["q"] = q;
      s["props"] = g::gen_props(ch, 8);
      // 30%: the step also asks for the distance to a feature's plane, by name (a slab / fault of that world when there is one)
      if (ch.chance(30))
        {
          std::vector<std::string> lines, all;
          for (const auto &f : w.root.at("features").a) { all.push_back(f.at("name").str()); if (f.has("segments")) lines.push_back(f.at("name").str()); }
          if (!lines.empty() && ch.chance(85)) s["dtp"] = lines[ch.index(lines.size())];
          else if (!all.empty()) s["dtp"] = all[ch.index(all.size())];
        }
      steps.push(s);
      if (siblings) { J s2 = s; s2["w"] = 1 - static_cast<int>(wi); steps.push(s2); } // the same request to the sibling, immediately
    }
  c["steps"] = steps;
  return c;
}

static ProcRef g_ref;

static std::vector<double> run_query(const WB::World &w, const J &s, const PropList &pl);
static std::vector<double> run_dtp(const WB::World &w, const J &s);

// executed in a fresh process: one world, its requests in order, answers as bit patterns
static J fresh_process_answers(const J &req)
{
  J out = J::obj();
  J answers = J::arr(), dtps = J::arr();
  {
    auto w = make_world(req.at("world").str(), 1, "fresh");
    for (const auto &s : req.at("steps").a)
      {
        J a = J::arr();
        try { for (double v : run_query(*w, s, props_from(s.at("props")))) a.push(J(bits_hex(v))); }
        catch (const std::exception &) { a = J(); }
        answers.push(a);
        J dd = J::arr();
        if (s.has("dtp")) for (double v : run_dtp(*w, s)) dd.push(J(bits_hex(v)));
        dtps.push(dd);
      }
  }
  out["answers"] = answers;
  out["dtp"] = dtps;
  remove_scratch();
  return out;
}

// World::distance_to_plane for the feature named in the step ("dtp"); {} when the call throws (e.g. the name is not a slab / fault)
static std::vector<double> run_dtp(const WB::World &w, const J &s)
{
  try
    {
      const WB::Objects::PlaneDistances d = w.distance_to_plane(p3(s.at("q").at("p")), s.at("q").at("depth").num(), s.at("dtp").str());
      return {d.get_distance_from_surface(), d.get_distance_along_surface()};
    }
  catch (const std::exception &) { return {}; }
}

static std::vector<double> run_query(const WB::World &w, const J &s, const PropList &pl)
{
  if (s.at("dim").num() == 2) return w.properties(p2(s.at("q").at("p2")), s.at("q").at("depth").num(), pl);
  return w.properties(p3(s.at("q").at("p")), s.at("q").at("depth").num(), pl);
}

static Result check_history(const J &c)
{
  Result r;
  std::vector<std::unique_ptr<WB::World>> main_w, twin_w;
  for (size_t i = 0; i < c.at("worlds").size(); ++i)
    {
      main_w.push_back(make_world(c.at("worlds")[i].str(), 1, ("m" + std::to_string(i)).c_str()));
      twin_w.push_back(make_world(c.at("worlds")[i].str(), 1, ("t" + std::to_string(i)).c_str()));
    }
  if (main_w.size() >= 2) r.classes.push_back(">=2 worlds alive");
  std::vector<std::vector<double>> first_answers, dtp_mine;
  for (const auto &s : c.at("steps").a)
    {
      const size_t wi = static_cast<size_t>(s.at("w").num());
      const WB::World &W = *main_w[wi], &T = *twin_w[wi];
      const PropList pl = props_from(s.at("props"));
      const bool d2 = s.at("dim").num() == 2;
      dtp_mine.push_back(s.has("dtp") ? run_dtp(W, s) : std::vector<double>());
      if (s.has("dtp")) r.classes.push_back("distance_to_plane call in the history");
      std::vector<double> out;
      try { out = run_query(W, s, pl); }
      catch (const std::exception &) { first_answers.emplace_back(); r.classes.push_back("query-threw"); continue; }
      first_answers.push_back(out);
      r.inner++;
      const unsigned announced = W.properties_output_size(pl);
      if (out.size() != announced)
        return Result::fail("output-size", "properties() returned " + std::to_string(out.size()) + " values, properties_output_size announces " + std::to_string(announced) + " for " + s.at("props").dump());
      // classification
      const double tag = run_query(T, s, {{{4, 0, 0}}})[0];
      std::set<unsigned> kinds;
      for (auto &p : pl) kinds.insert(p[0]);
      const bool nt = tag != -1 && kinds.size() >= 2;
      if (nt) { r.nontrivial = true; r.inner_nt++; }
      if (tag != -1) r.classes.push_back(d2 ? "2D inside" : "3D inside");
      {
        bool grains_seen = false, hit = false;
        for (auto &p : pl) { if (p[0] == 3 && p[2] != 1) grains_seen = true; if (p[0] == 5 && grains_seen) hit = true; }
        if (d2 && hit) r.classes.push_back("2D: grains k!=1 before velocity");
      }
      if (s.at("q").at("depth").num() == 0 && pl.size() > 1) r.classes.push_back("depth 0 batched");
      // every block equals the stand-alone answer of a twin world that never saw a batched request
      size_t pos = 0;
      for (size_t i = 0; i < pl.size(); ++i)
        {
          const std::vector<double> single = run_query(T, s, {pl[i]});
          const unsigned wdt = prop_width(pl[i]);
          if (single.size() != wdt) return Result::fail("single-size", "stand-alone query returned " + std::to_string(single.size()) + " values for one property of width " + std::to_string(wdt));
          for (unsigned k = 0; k < wdt; ++k)
            if (!same_bits(out[pos + k], single[k]))
              {
                std::string sig = "batch-vs-single";
                if (d2 && pl[i][0] == 5) sig = "2d-velocity-block";
                else if (d2 && pl[i][0] == 3) sig = "2d-grains-block";
                else if (pl[i][0] == 1 && s.at("q").at("depth").num() == 0) sig = "forced-surface-batched";
                return Result::fail(sig, std::string(d2 ? "2D" : "3D") + " batched request " + s.at("props").dump() + ": block " + std::to_string(i) + " (kind " + std::to_string(pl[i][0]) + ") slot " + std::to_string(k) + " is " + fmt(out[pos + k]) + " but the stand-alone query returns " + fmt(single[k]) + "; query " + s.at("q").dump());
              }
          // dedicated single-property entry points
          if (pl[i][0] == 1)
            {
              const double t = d2 ? T.temperature(p2(s.at("q").at("p2")), s.at("q").at("depth").num()) : T.temperature(p3(s.at("q").at("p")), s.at("q").at("depth").num());
              if (!same_bits(t, out[pos])) return Result::fail("temperature-entry-point", "temperature() returns " + fmt(t) + ", batched block " + fmt(out[pos]));
            }
          if (pl[i][0] == 2)
            {
              const double v = d2 ? T.composition(p2(s.at("q").at("p2")), s.at("q").at("depth").num(), pl[i][1]) : T.composition(p3(s.at("q").at("p")), s.at("q").at("depth").num(), pl[i][1]);
              if (!same_bits(v, out[pos])) return Result::fail("composition-entry-point", "composition() returns " + fmt(v) + ", batched block " + fmt(out[pos]));
            }
          if (pl[i][0] == 3 && pl[i][2] > 0)
            {
              const WB::grains gr = d2 ? T.grains(p2(s.at("q").at("p2")), s.at("q").at("depth").num(), pl[i][1], pl[i][2]) : T.grains(p3(s.at("q").at("p")), s.at("q").at("depth").num(), pl[i][1], pl[i][2]);
              for (unsigned gi = 0; gi < pl[i][2]; ++gi)
                {
                  if (!same_bits(gr.sizes[gi], out[pos + gi])) return Result::fail("grains-entry-point", "grains() size differs from batched block");
                  for (unsigned a = 0; a < 3; ++a)
                    for (unsigned b = 0; b < 3; ++b)
                      if (!same_bits(gr.rotation_matrices[gi][a][b], out[pos + pl[i][2] + gi * 9 + a * 3 + b])) return Result::fail("grains-entry-point", "grains() rotation matrix differs from batched block");
                }
            }
          pos += wdt;
        }
      // permuted / duplicated list => permuted / duplicated blocks
      {
        PropList rev(pl.rbegin(), pl.rend());
        rev.push_back(pl[0]);
        const std::vector<double> o2 = run_query(W, s, rev);
        size_t p2_ = 0;
        for (size_t i = 0; i < rev.size(); ++i)
          {
            const size_t orig = i < pl.size() ? pl.size() - 1 - i : 0;
            size_t opos = 0;
            for (size_t j = 0; j < orig; ++j) opos += prop_width(pl[j]);
            for (unsigned k = 0; k < prop_width(rev[i]); ++k)
              if (!same_bits(o2[p2_ + k], out[opos + k]))
                return Result::fail(d2 && (rev[i][0] == 5 || rev[i][0] == 3) ? (rev[i][0] == 5 ? "2d-velocity-block" : "2d-grains-block") : "order-dependence", "reversing the property list changes block of kind " + std::to_string(rev[i][0]) + ": " + fmt(o2[p2_ + k]) + " vs " + fmt(out[opos + k]) + " for " + s.at("props").dump());
            p2_ += prop_width(rev[i]);
          }
      }
    }
  // process-state independence: each world's requests, answered by a fresh process that has seen
  // nothing else (no other world, no earlier query), give the same bits
  for (size_t wi = 0; wi < c.at("worlds").size(); ++wi)
    {
      J req = J::obj();
      req["world"] = c.at("worlds")[wi];
      J st = J::arr();
      std::vector<size_t> idx;
      for (size_t si = 0; si < c.at("steps").size(); ++si)
        if (static_cast<size_t>(c.at("steps")[si].at("w").num()) == wi) { st.push(c.at("steps")[si]); idx.push_back(si); }
      if (idx.empty()) continue;
      req["steps"] = st;
      const J resp = g_ref.ask(req);
      if (resp.has("error")) { r.classes.push_back("fresh-process-error"); continue; }
      for (size_t k = 0; k < idx.size(); ++k)
        {
          if (resp.has("dtp") && c.at("steps")[idx[k]].has("dtp"))
            {
              const J &dd = resp.at("dtp")[k];
              const std::vector<double> &dm = dtp_mine[idx[k]];
              r.inner++;
              bool same = dd.size() == dm.size();
              for (size_t j = 0; same && j < dm.size(); ++j) if (dd[j].str() != bits_hex(dm[j])) same = false;
              if (!same)
                return Result::fail("process-state-dependence", "world " + std::to_string(wi) + " step " + std::to_string(idx[k]) + ": distance_to_plane for feature '" + c.at("steps")[idx[k]].at("dtp").str() + "' returns " + (dm.empty() ? std::string("an exception") : fmt(dm[0]) + " / " + fmt(dm[1])) + " in this process (other worlds alive, earlier queries made) but a fresh process that only built this world returns " + (dd.size() == 0 ? std::string("an exception") : "other bits") + "; request " + c.at("steps")[idx[k]].dump());
            }
          const J &a = resp.at("answers")[k];
          const std::vector<double> &mine = first_answers[idx[k]];
          if (a.is_null() || mine.empty()) continue;
          r.inner++;
          if (a.size() != mine.size()) return Result::fail("process-state-dependence", "a fresh process returns " + std::to_string(a.size()) + " values, this process " + std::to_string(mine.size()));
          for (size_t j = 0; j < mine.size(); ++j)
            if (a[j].str() != bits_hex(mine[j]))
              return Result::fail("process-state-dependence", "world " + std::to_string(wi) + " step " + std::to_string(idx[k]) + " value " + std::to_string(j) + " is " + fmt(mine[j]) + " in this process (other worlds alive, earlier queries made) but a fresh process that only built this world returns bits " + a[j].str() + "; request " + c.at("steps")[idx[k]].dump());
        }
    }
  // history independence: the same requests again, in reverse order, give the same bits
  for (size_t si = c.at("steps").size(); si-- > 0;)
    {
      const J &s = c.at("steps")[si];
      if (first_answers[si].empty()) continue;
      const std::vector<double> again = run_query(*main_w[static_cast<size_t>(s.at("w").num())], s, props_from(s.at("props")));
      if (again.size() != first_answers[si].size() || std::memcmp(again.data(), first_answers[si].data(), again.size() * sizeof(double)) != 0)
        return Result::fail("history-dependence", "the same request returned different bits after other queries had been made (step " + std::to_string(si) + ")");
    }
  return r;
}

int main(int argc, char **argv)
{
  g_ref.start(fresh_process_answers); // before anything in this process touches the library
  scratch_dir();                      // shared by the per-case child processes
  return run_main("C01", argc, argv,
  {
    {"history_3d", "1..3 worlds alive (1..5 features of all types, deterministic models, operations, optional forced surface T) x histories of 3..25 batched 3D requests (1..8 properties, any mix/order/multiplicity); oracle: twin world answering stand-alone requests, reversed/duplicated list, replay of the whole history in reverse. Non-trivial: point inside a feature and >=2 different kinds in the list", 60, [](Chooser &ch) { return gen_history(ch, false); }, check_history, 100, true, true},
    {"history_2d", "same with a cross section; 75% of the requests through the 2D entry points", 60, [](Chooser &ch) { return gen_history(ch, true); }, check_history, 100, true, true},
  });
}
