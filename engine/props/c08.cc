// C08 — answers are invariant under rigid motions of world plus query.
#include "../transform.h"

using namespace vf;
namespace WB = WorldBuilder;

static void lon_range(const J &j, double &lo, double &hi)
{
  // every [x,y] pair of numbers in the tree that is a coordinate: collected by key
  std::function<void(const J &)> pts = [&](const J &a) {
    if (a.is_arr() && a.size() == 2 && a[0].is_num() && a[1].is_num()) { lo = std::min(lo, a[0].num()); hi = std::max(hi, a[0].num()); }
    else if (a.is_arr()) for (auto &e : a.a) pts(e);
  };
  std::function<void(const J &)> walk = [&](const J &o) {
    if (o.is_obj())
      for (auto &kv : o.o)
        {
          if (kv.first == "coordinates" || kv.first == "dip point" || kv.first == "ridge coordinates" || kv.first == "cross section") pts(kv.second);
          else walk(kv.second);
        }
    else if (o.is_arr()) for (auto &e : o.a) walk(e);
  };
  walk(j);
}

static J gen_motion_case(Chooser &ch)
{
  g::Opt o;
  o.min_features = 1; o.max_features = 4;
  o.operations = true; o.model_ranges = true; o.cross_section = 1; o.global_constants = ch.chance(30); o.water = true;
  o.depth_surfaces = true; o.depth_surface_interior = 14; // depth-surface points move with the world; enough of them for the triangulation to have choices
  g::GW w = g::gen_world(ch, o);
  J c = J::obj();
  c["world"] = w.root.dump();
  c["sph"] = w.fr.sph; c["R"] = w.fr.R; c["H"] = w.fr.H; c["dm"] = w.fr.depth_method;
  J mo = J::obj();
  if (w.fr.sph)
    {
      double lo = 1e9, hi = -1e9;
      lon_range(w.root, lo, hi);
      const double dmin = -360 - lo + 0.5, dmax = 360 - hi - 0.5;
      double dlon;
      const int kind = static_cast<int>(ch.range(0, 3));
      const double k0 = w.feats.empty() ? 0 : w.feats[0].kernel[0];
      if (kind == 0) dlon = 180 - k0 + ch.real(-3, 3);        // carries the first feature onto the +180 meridian
      else if (kind == 1) dlon = -180 - k0 + ch.real(-3, 3);  // ... onto -180
      else if (kind == 2) dlon = ch.flip() ? 360.0 : -360.0;   // a full turn
      else dlon = ch.real(-300, 300);
      dlon = std::max(dmin, std::min(dmax, dlon));
      if (dmin > dmax) dlon = 0;
      mo["dlon"] = dlon;
    }
  else
    {
      const int kind = static_cast<int>(ch.range(0, 3));
      mo["tx"] = kind == 1 ? 0.0 : ch.real(-1e7, 1e7);
      mo["ty"] = kind == 1 ? 0.0 : ch.real(-1e7, 1e7);
      mo["angle"] = kind == 0 ? 0.0 : (kind == 2 ? ch.pick<double>({90.0, 180.0, 270.0, 45.0, 135.0}) : ch.real(0, 360));
    }
  c["motion"] = mo;
  c["queries"] = g::gen_queries(ch, w, static_cast<int>(ch.range(3, 12)), 88);
  return c;
}

// Ridge-dependent cooling models under a longitude offset that puts the ridge in another 360-degree copy than the natural longitude
// of the query: an oceanic plate (half space / plate model) and optionally a mass conserving slab, with one spreading velocity per
// ridge point and an oblique ridge, i.e. everything that the closest-ridge-point search interpolates.
static J gen_ridge_alias_case(Chooser &ch)
{
  g::Frame fr;
  fr.sph = true; fr.R = 6371e3; fr.depth_method = ch.pick<std::string>({"starting point", "begin segment", "begin at end segment"});
  J root = J::obj();
  g::frame_to_json(fr, root);
  const double lon0 = ch.lattice(-60, 60, 1), lat0 = ch.lattice(-30, 30, 1), w = ch.lattice(10, 30, 1), h = ch.lattice(10, 25, 1);
  auto ridge = [&](int &n) {
    n = static_cast<int>(ch.range(2, 4));
    J r = J::arr();
    const double x = lon0 + ch.lattice(-w, w, 0.5), slant = ch.lattice(-12, 12, 0.5);
    for (int i = 0; i < n; ++i)
      {
        const double t = n == 1 ? 0 : -1 + 2.0 * i / (n - 1);
        r.push(jp(x + t * slant + ch.lattice(-3, 3, 0.5), lat0 + t * (h + 3)));
      }
    return J::arr({r});
  };
  auto velocities = [&](int n) {
    J vals = J::arr();
    for (int i = 0; i < n; ++i) vals.push(J(ch.lattice(0.01, 0.12, 0.005)));
    return J::arr({J::arr({J(0.0), J::arr({vals})})});
  };
  J feats = J::arr();
  {
    J f = J::obj();
    f["model"] = "oceanic plate"; f["name"] = "plate";
    f["coordinates"] = J::arr({jp(lon0 - w, lat0 - h), jp(lon0 + w, lat0 - h), jp(lon0 + w, lat0 + h), jp(lon0 - w, lat0 + h)});
    f["max depth"] = 150e3;
    J t = J::obj();
    t["model"] = ch.pick<std::string>({"plate model", "half space model"});
    t["max depth"] = 150e3;
    int n = 2;
    t["ridge coordinates"] = ridge(n);
    t["spreading velocity"] = velocities(n);
    f["temperature models"] = J::arr({t});
    feats.push(f);
  }
  if (ch.chance(40))
    {
      J f = J::obj();
      f["model"] = "subducting plate"; f["name"] = "slab";
      f["coordinates"] = J::arr({jp(lon0 + w, lat0 - h + 2), jp(lon0 + w + ch.lattice(-2, 2, 0.5), lat0 + h - 2)});
      f["dip point"] = jp(lon0 + w + 30, lat0);
      J seg = J::obj();
      seg["length"] = 400e3; seg["thickness"] = J::arr({J(100e3)}); seg["angle"] = J::arr({J(ch.lattice(20, 60, 5))});
      f["segments"] = J::arr({seg});
      J t = J::obj();
      t["model"] = "mass conserving";
      int n = 2;
      t["ridge coordinates"] = ridge(n);
      t["spreading velocity"] = velocities(n);
      t["subducting velocity"] = ch.lattice(0.02, 0.1, 0.01);
      t["coupling depth"] = 80e3; t["min distance slab top"] = -200e3; t["max distance slab top"] = 150e3;
      t["reference model name"] = ch.pick<std::string>({"half space model", "plate model"});
      f["temperature models"] = J::arr({t});
      feats.push(f);
    }
  root["features"] = feats;
  J c = J::obj();
  c["world"] = root.dump();
  c["sph"] = true; c["R"] = fr.R; c["H"] = fr.H; c["dm"] = fr.depth_method;
  double lo = 1e9, hi = -1e9;
  lon_range(root, lo, hi);
  const double dmin = -360 - lo + 0.5, dmax = 360 - hi - 0.5;
  double dlon;
  switch (ch.range(0, 4))
    {
      case 0: dlon = 180 - lon0 + ch.lattice(-w, w, 0.5); break;
      case 1: dlon = -180 - lon0 + ch.lattice(-w, w, 0.5); break;
      case 2: dlon = ch.flip() ? 330.0 - lon0 : -330.0 - lon0; break;
      case 3: dlon = ch.flip() ? 360.0 : -360.0; break;
      default: dlon = ch.lattice(-300, 300, 1); break;
    }
  dlon = std::max(dmin, std::min(dmax, dlon));
  J mo = J::obj();
  mo["dlon"] = dlon;
  c["motion"] = mo;
  J qs = J::arr();
  const int nq = static_cast<int>(ch.range(4, 10));
  for (int i = 0; i < nq; ++i)
    {
      const bool slab = feats.size() > 1 && ch.chance(35);
      const double lon = slab ? lon0 + w + ch.real(0, 5) : lon0 + ch.real(-w, w), lat = lat0 + ch.real(-h, h) * (slab ? 0.7 : 1.0);
      qs.push(g::make_query(fr, lon, lat, slab ? ch.real(0, 350e3) : ch.real(0, 150e3)));
    }
  c["queries"] = qs;
  return c;
}

// Root-cause classification for a failure next to a curved trench: BezierCurve::closest_point_on_curve_segment runs one Newton
// iteration per curve segment and keeps whatever local minimiser it converges to (listed finding of C19). Which start values are tried
// depends on the 360-degree copy of the longitude the point arrives in, so the two frames can settle on different feet. The case is
// attributed to that finding only if it is demonstrated here: in one of the two frames the reported foot of some curved trench is
// noticeably farther from the point than the closest point found by dense sampling of the same curve.
#include "world_builder/objects/bezier_curve.h"
static double c08_hav(double lon1, double lat1, double lon2, double lat2)
{
  const double a = std::sin((lat2 - lat1) / 2) * std::sin((lat2 - lat1) / 2) + std::cos(lat1) * std::cos(lat2) * std::sin((lon2 - lon1) / 2) * std::sin((lon2 - lon1) / 2);
  return 2 * std::asin(std::min(1.0, std::sqrt(a)));
}
static bool foot_not_global(const J &world, bool sph, double qx, double qy)
{
  for (const auto &f : world.at("features").a)
    {
      if (!f.has("segments") || f.at("coordinates").size() < 3) continue;
      std::vector<WB::Point<2>> pts;
      const double u = sph ? DEG : 1.0;
      for (const auto &p : f.at("coordinates").a) pts.emplace_back(p[0].num() * u, p[1].num() * u, sph ? WB::spherical : WB::cartesian);
      WB::Objects::BezierCurve curve(pts);
      double L = 0;
      for (size_t i = 0; i + 1 < pts.size(); ++i) L += (pts[i + 1] - pts[i]).norm();
      // the point in the copy of the longitude nearest to the trench
      double x = qx * u;
      if (sph) { while (x - pts[0][0] > PI) x -= 2 * PI; while (x - pts[0][0] < -PI) x += 2 * PI; }
      const WB::Point<2> cp(x, qy * u, sph ? WB::spherical : WB::cartesian);
      auto dist = [&](const WB::Point<2> &a) { return sph ? c08_hav(a[0], a[1], cp[0], cp[1]) : (a - cp).norm(); };
      double bd = HUGE_VAL;
      for (size_t i = 0; i + 1 < pts.size(); ++i)
        for (int k = 0; k <= 4000; ++k) bd = std::min(bd, dist(curve(i, k / 4000.0)));
      // as the library asks: natural longitude in (-pi, pi]
      double xn = qx * u;
      if (sph) { while (xn > PI) xn -= 2 * PI; while (xn <= -PI) xn += 2 * PI; }
      const auto res = curve.closest_point_on_curve_segment(WB::Point<2>(xn, qy * u, sph ? WB::spherical : WB::cartesian));
      if (!std::isfinite(res.distance)) continue;
      WB::Point<2> rp = res.point;
      if (sph) { while (rp[0] - cp[0] > PI) rp[0] -= 2 * PI; while (rp[0] - cp[0] < -PI) rp[0] += 2 * PI; }
      if (dist(rp) > bd + 1e-6 * L + 1e-5 * bd) return true;
    }
  return false;
}

// three consecutive trench coordinates exactly on one line: the orientation tests for the Bezier control points compare cross
// products that are zero up to rounding, so the curve's shape follows the rounding of the absolute coordinates (root cause listed
// under C06, "collinear intermediate coordinate")
static bool has_collinear_trench(const J &root)
{
  for (const auto &f : root.at("features").a)
    if (f.has("segments"))
      for (size_t i = 0; i + 2 < f.at("coordinates").size(); ++i)
        {
          const J &p0 = f.at("coordinates")[i], &p1 = f.at("coordinates")[i + 1], &p2 = f.at("coordinates")[i + 2];
          const double ux = p1[0].num() - p0[0].num(), uy = p1[1].num() - p0[1].num(), vx = p2[0].num() - p1[0].num(), vy = p2[1].num() - p1[1].num();
          if (std::fabs(ux * vy - uy * vx) <= 1e-12 * (std::fabs(ux * vy) + std::fabs(uy * vx))) return true;
        }
  return false;
}

static const PropList &cmp_list()
{
  static const PropList l = {{{1, 0, 0}}, {{2, 0, 0}}, {{2, 1, 0}}, {{2, 2, 0}}, {{2, 3, 0}}, {{2, 4, 0}}, {{2, 5, 0}}, {{3, 0, 2}}, {{3, 1, 1}}};
  return l;
}

struct Ans { std::vector<double> v; std::string tag; bool threw = false; };
static Ans answer(const WB::World &w, const J &q)
{
  Ans a;
  try
    {
      a.v = w.properties(p3(q.at("p")), q.at("depth").num(), cmp_list());
      const double t = w.properties(p3(q.at("p")), q.at("depth").num(), {{{4, 0, 0}}})[0];
      a.tag = t < 0 ? "<none>" : w.feature_tags[static_cast<size_t>(t)];
    }
  catch (const std::exception &) { a.threw = true; }
  return a;
}
// 1e-6 relative to the value or - where add / subtract operations let terms of ordinary size cancel - to the ordinary size of the
// quantity (1000 K for the temperature in slot 0, 1 for fractions and grain entries): the terms carry the 1e-6 of a trench foot
static bool close_value(size_t slot, double a, double b) { return close_rel(a, b, 1e-6, slot == 0 ? 1e-3 : 1e-6); }
static bool same(const Ans &a, const Ans &b)
{
  if (a.threw != b.threw) return false;
  if (a.threw) return true;
  if (a.tag != b.tag) return false;
  for (size_t i = 0; i < a.v.size(); ++i)
    if (!close_value(i, a.v[i], b.v[i])) return false;
  return true;
}

static Result check_motion(const J &c)
{
  Result r;
  g::Frame fr;
  fr.sph = c.at("sph").boolean(); fr.R = c.at("R").num(); fr.H = c.at("H").num(); fr.depth_method = c.at("dm").str();
  Motion m;
  m.sph = fr.sph;
  if (fr.sph) m.dlon = c.at("motion").at("dlon").num();
  else { m.tx = c.at("motion").at("tx").num(); m.ty = c.at("motion").at("ty").num(); m.angle_deg = c.at("motion").at("angle").num(); }
  const J root = J::parse(c.at("world").str());
  const J moved = move_world(root, m);
  auto A = make_world(c.at("world").str(), 1, "orig");
  auto B = make_world(moved.dump(), 1, "moved");
  bool crosses = false;
  if (fr.sph)
    {
      double lo = 1e9, hi = -1e9;
      lon_range(moved, lo, hi);
      crosses = (lo < 180 && hi > 180) || (lo < -180 && hi > -180) || lo > 180 || hi < -180;
      if (crosses) r.classes.push_back("moved across/beyond +-180");
    }
  bool has_curved = false, has_ridge = c.at("world").str().find("ridge coordinates") != std::string::npos;
  for (auto &f : root.at("features").a) if (f.has("segments") && f.at("coordinates").size() > 2) has_curved = true;
  if (has_curved) r.classes.push_back("curved trench");
  if (has_ridge) r.classes.push_back("ridge-dependent model");
  // the 2D interface: the cross section moves with the world, so a 2D point (x,z) keeps its meaning
  if (root.has("cross section"))
    {
      const J &cs = root.at("cross section");
      const double ax = cs[0][0].num(), ay = cs[0][1].num(), bx = cs[1][0].num(), by = cs[1][1].num();
      const double un = std::sqrt((bx - ax) * (bx - ax) + (by - ay) * (by - ay));
      for (const auto &q : c.at("queries").a)
        {
          const double s = ((q.at("nat")[0].num() - ax) * (bx - ax) + (q.at("nat")[1].num() - ay) * (by - ay)) / un;
          const double depth = q.at("depth").num();
          std::array<double, 2> p2d;
          if (fr.sph) { const double rr = fr.R - depth; p2d = {{rr * std::cos(s * DEG), rr * std::sin(s * DEG)}}; }
          else p2d = {{s, fr.H - depth}};
          Ans a, b;
          const PropList l2 = {{{1, 0, 0}}, {{2, 0, 0}}, {{2, 1, 0}}, {{2, 2, 0}}, {{4, 0, 0}}};
          try { a.v = A->properties(p2d, depth, l2); } catch (const std::exception &) { a.threw = true; }
          try { b.v = B->properties(p2d, depth, l2); } catch (const std::exception &) { b.threw = true; }
          if (!a.threw) { a.tag = a.v.back() < 0 ? "<none>" : A->feature_tags[static_cast<size_t>(a.v.back())]; a.v.pop_back(); }
          if (!b.threw) { b.tag = b.v.back() < 0 ? "<none>" : B->feature_tags[static_cast<size_t>(b.v.back())]; b.v.pop_back(); }
          r.inner++;
          if (same(a, b)) continue;
          // boundary-robust: the original world's 2D answer must be stable around the point
          bool ambiguous = false;
          for (int k = 0; k < 6 && !ambiguous; ++k)
            {
              std::array<double, 2> pp = p2d;
              double dd = depth;
              if (k < 4) pp[static_cast<size_t>(k / 2)] += (k % 2 ? 0.02 : -0.02); else dd += (k % 2 ? 0.02 : -0.02); // the depth is an argument of its own
              Ans a2;
              try { a2.v = A->properties(pp, dd, l2); a2.tag = a2.v.back() < 0 ? "<none>" : A->feature_tags[static_cast<size_t>(a2.v.back())]; a2.v.pop_back(); } catch (const std::exception &) { a2.threw = true; }
              if (!same(a, a2)) ambiguous = true;
            }
          if (ambiguous) { r.classes.push_back("boundary-ambiguous(skipped)"); continue; }
          return Result::fail(has_collinear_trench(root) ? "collinear-trench-coordinates" : (fr.sph ? "sph-2d-interface" : "cart-2d-interface"), "the 2D interface (cross section moved with the world) answers differently after the motion at (x,z)=(" + fmt(p2d[0]) + "," + fmt(p2d[1]) + ") depth " + fmt(depth) + ": tag '" + a.tag + "' vs '" + b.tag + "'" + (a.v.empty() || b.v.empty() ? std::string() : ", T " + fmt(a.v[0]) + " vs " + fmt(b.v[0])));
        }
    }
  for (const auto &q : c.at("queries").a)
    {
      const J q2 = move_query(fr, q, m);
      const Ans a = answer(*A, q), b = answer(*B, q2);
      r.inner++;
      if (!a.threw && a.tag != "<none>" && !m.identity()) { r.nontrivial = true; r.inner_nt++; }
      if (same(a, b)) continue;
      // boundary-robust comparison: is the original world's own answer constant in a small stencil around the point?
      bool ambiguous = false;
      const double d = fr.sph ? 2e-7 : 0.02; // degrees | metres
      for (int k = 0; k < 6 && !ambiguous; ++k)
        {
          J qq;
          if (k < 4) qq = g::make_query(fr, q.at("nat")[0].num() + (k == 0 ? d : k == 1 ? -d : 0), q.at("nat")[1].num() + (k == 2 ? d : k == 3 ? -d : 0), q.at("depth").num());
          else qq = g::make_query(fr, q.at("nat")[0].num(), q.at("nat")[1].num(), q.at("depth").num() + (k == 4 ? 0.02 : -0.02));
          if (!same(a, answer(*A, qq))) ambiguous = true;
        }
      if (ambiguous) { r.classes.push_back("boundary-ambiguous(skipped)"); continue; }
      std::string what;
      if (a.threw != b.threw) what = a.threw ? "original threw, moved answered" : "moved threw, original answered";
      else if (a.tag != b.tag) what = "tag '" + a.tag + "' vs '" + b.tag + "'";
      else for (size_t i = 0; i < a.v.size(); ++i) if (!close_value(i, a.v[i], b.v[i])) { what = "value " + std::to_string(i) + ": " + fmt(a.v[i]) + " vs " + fmt(b.v[i]); break; }
      // classification of the root cause by the feature type that owns the point in the original world
      std::string owner = "?";
      for (auto &f : root.at("features").a) { const std::string tg = f.has("tag") ? f.at("tag").str() : f.at("model").str(); if (tg == a.tag || tg == b.tag) owner = f.at("model").str(); }
      std::string sig = fr.sph ? "sph-longitude-offset" : "cart-rigid-motion";
      if (owner == "plume" && fr.sph) sig = "plume-longitude-alias";
      // exactly collinear coordinates are the more specific (and listed) root cause: the mirrored control point bends the curve into
      // an S, on which the reported foot is then often a local minimum as well
      if (has_collinear_trench(root)) sig = "collinear-trench-coordinates";
      else if (foot_not_global(root, fr.sph, q.at("nat")[0].num(), q.at("nat")[1].num()) || foot_not_global(moved, fr.sph, q2.at("nat")[0].num(), q2.at("nat")[1].num()))
        sig = "curved-trench-foot-is-a-local-minimum";
      return Result::fail(sig, std::string(fr.sph ? "longitude offset " + fmt(m.dlon) : "rotation " + fmt(m.angle_deg) + " deg + translation (" + fmt(m.tx) + "," + fmt(m.ty) + ")") + " changes the answer (" + what + ") at " + q.dump() + " -> " + q2.dump());
    }
  return r;
}

int main(int argc, char **argv)
{
  return run_main("C08", argc, argv,
  {
    {"rigid_motion", "worlds with 1..4 features of every type (ridges, dip points, curved trenches, cross section, water content, point-wise depth surfaces with up to 14 interior points) x a rigid motion (cartesian: rotation about the vertical by any angle incl. 90/180/270 + translation up to 1e7 m; spherical: common longitude offset, 75% of them carrying a feature onto +-180 or a full turn, longitudes kept within [-360,360]) x 3..12 feature-aimed queries; temperature, compositions, grains and tag string compared (1e-6 relative: the trench foot comes from a Newton iteration with a stated tolerance), boundary-robust. Non-trivial: point inside a feature and motion not the identity", 80, gen_motion_case, check_motion, 100, true, true},
    {"ridge_longitude_alias", "spherical worlds whose temperature depends on the closest ridge point (oceanic plate with plate / half space model, 40% with a mass conserving slab) with an oblique 2..4-point ridge and one spreading velocity per ridge point x a longitude offset that carries plate and ridge onto +-180, to +-330, a full turn, or anywhere in [-300,300] x 4..10 queries inside plate / slab; same comparison as rigid_motion. Non-trivial: point inside a feature and offset not zero", 40, gen_ridge_alias_case, check_motion, 100, true, true},
  });
}
