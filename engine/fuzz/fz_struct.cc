// libFuzzer target 2 (C12 + C13): bytes -> FuzzedDataProvider -> structured world generator (the same one the
// rapidcheck properties use). Mode A keeps the world inside the physical domain and queries degenerate places:
// every answer must be finite (C13). Mode B replaces numbers by extreme values / empties lists: construction may
// throw, queries may throw, nothing may crash (C12).
#include <fstream>
#include "../gen.h"
#include "fz_common.h"

#include <fuzzer/FuzzedDataProvider.h>

using namespace vf;

struct FdpChooser : Chooser
{
  FuzzedDataProvider &fdp;
  explicit FdpChooser(FuzzedDataProvider &f) : fdp(f) {}
  long long range(long long lo, long long hi) override { return hi <= lo ? lo : fdp.ConsumeIntegralInRange<long long>(lo, hi); }
};

extern "C" int LLVMFuzzerTestOneInput(const uint8_t *data, size_t size)
{
  fz::counters().execs++;
  if (size < 8) return 0;
  FuzzedDataProvider fdp(data, size);
  FdpChooser ch(fdp);
  const bool extreme = ch.chance(50);
  g::Opt o;
  o.min_features = 1; o.max_features = 4;
  o.operations = true; o.model_ranges = true; o.global_constants = ch.flip(); o.force_surface = true; o.water = true; o.cross_section = 1;
  o.random_models = ch.chance(25); o.depth_surfaces = true;
  g::GW w = g::gen_world(ch, o);
  J doc = w.root;
  if (extreme)
    {
      std::vector<J *> nums, arrs;
      std::function<void(J &)> walk = [&](J &j) {
        if (j.is_num()) nums.push_back(&j);
        else if (j.is_arr()) { arrs.push_back(&j); for (auto &e : j.a) walk(e); }
        else if (j.is_obj()) for (auto &kv : j.o) if (kv.first != "version") walk(kv.second);
      };
      walk(doc);
      const int n = static_cast<int>(ch.range(1, 3));
      for (int i = 0; i < n && !nums.empty(); ++i)
        {
          J *t = nums[ch.index(nums.size())];
          switch (ch.range(0, 9))
            {
              case 0: *t = J(0.0); break;
              case 1: *t = J(-1.0); break;
              case 2: *t = J(1e-300); break;
              case 3: *t = J(1e308); break;
              case 4: *t = J(-1e308); break;
              case 5: *t = J::raw("NaN"); break;
              case 6: *t = J::raw("Infinity"); break;
              case 7: *t = J::raw("-Infinity"); break;
              case 8: *t = J(-t->n); break;
              default: *t = J(t->n * 1e6); break;
            }
        }
      if (ch.chance(30) && !arrs.empty())
        {
          J *a = arrs[ch.index(arrs.size())];
          const int k = static_cast<int>(ch.range(0, 2));
          if (k == 0) a->a.clear();
          else if (k == 1 && !a->a.empty()) a->a.resize(1);
          else if (!a->a.empty()) a->a.push_back(a->a.back());
        }
    }
  const std::string text = doc.dump();
  if (const char *dump_to = std::getenv("VERIF_FUZZ_DUMP")) { std::ofstream df(dump_to); df << text; } // triage: the world this input decodes to
  fz::counters().parsed++;
  WorldBuilder::World *W = fz::build(text);
  if (!W) return 0; // rejected with a proper exception (counted)
  const PropList all = {{{1, 0, 0}}, {{2, 0, 0}}, {{2, 3, 0}}, {{3, 0, 2}}, {{3, 1, 1}}, {{4, 0, 0}}, {{5, 0, 0}}};
  const int nq = static_cast<int>(ch.range(2, 10));
  for (int i = 0; i < nq; ++i)
    {
      const g::FM *m = (!w.feats.empty() && ch.chance(85)) ? &w.feats[ch.index(w.feats.size())] : nullptr;
      J q = g::gen_query(ch, w, m);
      // snap a share of the queries to exact feature coordinates / depth limits
      if (m && ch.chance(40) && !m->coords.empty())
        {
          const auto &v = m->coords[ch.index(m->coords.size())];
          q = g::make_query(w.fr, v[0], v[1], ch.pick<double>({0.0, m->dmin, m->dmax, q.at("depth").num()}));
        }
      fz::query(*W, p3(q.at("p")), q.at("depth").num(), all, !extreme, text + "\nquery " + q.dump());
    }
  delete W;
  return 0;
}
