// Shared by the libFuzzer targets: build a world from text, issue queries, enforce the C12/C13 oracle.
#pragma once
#include "world_builder/world.h"

#include <cmath>
#include <cstdio>
#include <cstdlib>
#include <fstream>
#include <string>
#include <unistd.h>

namespace fz
{
  inline const std::string &scratch_file()
  {
    static std::string p = [] {
      const char *b = std::getenv("VERIF_TMP");
      std::string base = b && *b ? b : "/dev/shm";
      return base + "/fz-" + std::to_string(::getpid()) + ".wb";
    }();
    return p;
  }
  [[noreturn]] inline void violation(const char *what, const std::string &detail)
  {
    std::fprintf(stderr, "\nORACLE-VIOLATION: %s\n%s\n", what, detail.substr(0, 2000).c_str());
    std::fflush(stderr);
    __builtin_trap();
  }
  struct Counters { unsigned long execs = 0, parsed = 0, constructed = 0, rejected = 0, queries = 0, query_threw = 0; };
  inline Counters &counters()
  {
    static Counters c;
    static bool reg = false;
    if (!reg)
      {
        reg = true;
        std::atexit([] {
          const char *out = std::getenv("VERIF_FUZZ_STATS");
          if (!out) return;
          std::ofstream f(out, std::ios::app);
          const Counters &k = counters();
          f << k.execs << " " << k.parsed << " " << k.constructed << " " << k.rejected << " " << k.queries << " " << k.query_threw << "\n";
        });
      }
    return c;
  }

  // returns the world or nullptr (rejected by a std::exception with a message)
  inline WorldBuilder::World *build(const std::string &text)
  {
    {
      std::ofstream f(scratch_file(), std::ios::binary | std::ios::trunc);
      f << text;
    }
    try
      {
        auto *w = new WorldBuilder::World(scratch_file());
        counters().constructed++;
        return w;
      }
    catch (const std::exception &e)
      {
        counters().rejected++;
        if (std::string(e.what()).empty()) violation("exception without message", text);
        return nullptr;
      }
    catch (...)
      {
        violation("construction threw something that is not a std::exception", text);
      }
  }

  inline void query(const WorldBuilder::World &w, const std::array<double, 3> &p, double depth, const std::vector<std::array<unsigned, 3>> &pl, bool must_be_finite, const std::string &text)
  {
    counters().queries++;
    try
      {
        const std::vector<double> out = w.properties(p, depth, pl);
        if (out.size() != w.properties_output_size(pl)) violation("properties() size differs from properties_output_size()", text);
        if (must_be_finite)
          for (double v : out)
            if (!std::isfinite(v)) violation("query returned a non-finite value", text);
      }
    catch (const std::exception &e)
      {
        counters().query_threw++;
        if (std::string(e.what()).empty()) violation("query threw an exception without message", text);
      }
    catch (...)
      {
        violation("query threw something that is not a std::exception", text);
      }
  }
} // namespace fz
