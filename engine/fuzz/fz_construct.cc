// libFuzzer target 1 (C12): arbitrary bytes -> world file -> World constructor (+ a few queries if it builds).
// Oracle: no sanitizer report, no signal; anything thrown is a std::exception with a message.
#include "fz_common.h"

extern "C" int LLVMFuzzerTestOneInput(const uint8_t *data, size_t size)
{
  fz::counters().execs++;
  const std::string text(reinterpret_cast<const char *>(data), size);
  WorldBuilder::World *w = fz::build(text);
  if (!w) return 0;
  static const std::vector<std::array<unsigned, 3>> pl = {{{1, 0, 0}}, {{2, 0, 0}}, {{3, 0, 2}}, {{4, 0, 0}}, {{5, 0, 0}}};
  // a few fixed probes; finiteness is not asserted here (arbitrary parameters), only "returns or throws"
  const double pts[][4] = {{0, 0, 0, 0}, {100e3, 100e3, 900e3, 100e3}, {250e3, 750e3, 990e3, 10e3}, {6371e3, 0, 0, 0}, {4.5e6, 4.5e6, 0, 7e3}, {0, 0, 0, 6371e3}};
  for (auto &p : pts) fz::query(*w, {{p[0], p[1], p[2]}}, p[3], pl, false, text);
  delete w;
  return 0;
}
