#!/usr/bin/env python3
"""Writes /verif/MANIFEST.json from the property table (run after changing vfdriver.PROPS / META)."""
import json, os, sys
sys.path.insert(0, os.path.dirname(os.path.abspath(__file__)))
import vfdriver

VERIF = vfdriver.VERIF
ALL = ["C%02d" % i for i in range(1, 21)]

META = {
    "C01": dict(
        technique="stateful property-based testing (rapidcheck): generated query histories over 1-3 live worlds; differential oracle = twin world answering stand-alone requests, list reversal/duplication, reverse replay of the history; bitwise comparison",
        text="Generated worlds (all feature types, deterministic models, operations, point-wise depth surfaces) and histories of batched 2D/3D requests; every block must be bit-identical to the stand-alone answer of a twin world, the announced size must be returned, and re-issuing the history backwards must reproduce every answer. Every case runs in a forked child and the reference answers come from a pristine process forked before the first case (no state can leak between worlds unnoticed); a sanitizer stage repeats the histories with the ASan+UBSan build.",
        note="Random models excluded (C15). Trusted: the twin-world construction; rapidcheck's generators for reproducibility.",
        design="DESIGN.md section 4, C01"),
    "C02": dict(
        technique="property-based testing (rapidcheck): metamorphic deletion/permutation of non-covering features (coverage decided by single-feature worlds holding the feature's geometry with one indicator model) + reference fold of uniform models with operations (tian water content models: only the clearing of unlisted compositions by replace is folded) + tag of the last covering feature, features without any model included",
        text="Generated stacks of 2-7 overlapping features. (1) Deleting or moving features that do not contain the point must not change any value bitwise nor the tag string; (2) temperature/composition must equal background + in-order fold of the covering features' uniform models with replace / replace defined only / add / subtract and per-model depth ranges; (3) tag string of the last covering feature, also when that feature has no models at all; grains and slab/fault velocity pass-through; tian water content models inside the stacks (the value they paint is tracked as unknown, the compositions they clear or leave alone are asserted).",
        note="Coverage is decided by the code itself on single-feature worlds (geometry of the feature + one indicator model, so that a feature whose own models are absent or broken still counts as covering). Two genuine defects are listed as known findings (slab/fault z-velocity seed, quaternion averaging of untouched grains).",
        design="DESIGN.md section 4, C02"),
    "C03": dict(
        technique="property-based testing (rapidcheck): closed-form background oracle on points constructed outside every feature; forced-surface-temperature invariant over all batchings",
        text="Generated worlds with arbitrary global constants, both coordinate systems, points far from every feature by construction (and any point the code itself tags -1), depths incl. 0, negative and huge, any property list: temperature must equal Tp*exp(alpha*g*d/cp) to 1e-13, everything else exactly the background. With forcing on, every temperature slot at depth 0 equals the surface temperature inside and outside features.",
        note="Closed form evaluated in double; 'outside' by construction or by the code's own tag.",
        design="DESIGN.md section 4, C03"),
    "C04": dict(
        technique="property-based testing (rapidcheck): exact integer point-in-polygon oracle on lattice polygons (boundary included), long-double oracle with ambiguity band off the lattice, closed-form local depth interval for point-wise min/max depth (tilted planes sampled at corners and interior points), plume ellipse/half-ellipsoid oracle written from the statement",
        text="Single-feature worlds with an indicator composition and tag. Membership is asserted in both directions (inside => painted, outside => untouched) over all lattice and half-lattice points around generated simple polygons (convex/concave, both orientations, footprints written across and beyond +-180) and closed depth intervals incl. the end points and their floating-point neighbours; area features whose min and max depth are each absent / a number / a one-entry list / a tilted plane given at the corners (and interior points, in any order) probed 1 m .. 5 km to either side of the local top and bottom; plumes against the interpolated ellipse with cyclic rotation-angle interpolation, head half-ellipsoid and continuation below the deepest section.",
        note="Boundary points only where coordinates are exactly representable; elsewhere a 1e-9 band is skipped. Plume longitude aliases are left to C08.",
        design="DESIGN.md section 4, C04"),
    "C05": dict(
        technique="property-based testing (rapidcheck, one process per case): reference closed forms written from the parameter documentation (uniform, adiabatic, linear, Chapman, half-space erfc, converged plate-cooling Fourier series with a measured truncation allowance, Gaussian plume, slab/fault distance models, uniform grains/velocity)",
        text="Single-feature worlds with exactly one model under test, parameters over the documented domain incl. the 'negative means adiabatic/global' sentinels, model ranges wider/narrower/shifted against the feature range and add/subtract over the background; interior points by construction. The returned value must equal the documented expression (1e-10 .. 1e-8 relative); outside the model's own range the background must come back unchanged.",
        note="Where the documentation is not specific (smooth composition shape, Euler convention, slab/fault sentinel depths) only the documented part is asserted. Ridge models: cartesian worlds with a ridge along x = const (2-4 points, constant or per-point spreading velocity) or a kinked ridge polyline of 3-5 points (closest point of the whole polyline, velocity interpolated there) and spherical worlds with a ridge along the equator spanning up to 300 degrees written anywhere in [-360,360] (distance R|lat|, velocity linear in longitude). A sanitizer stage re-runs the generators with the ASan+UBSan build. Slab/fault distances from the planar construction validated by C06.",
        design="DESIGN.md section 4, C05"),
    "C06": dict(
        technique="property-based testing (rapidcheck, one process per case): independent planar reference construction (straight lines and circular arcs in the plane perpendicular to the trench) compared with World::distance_to_plane and with membership via the tag",
        text="Slabs and faults on straight cartesian trenches of any position/azimuth/length and dip side, 1-4 segments (dips 5-175 degrees, arcs and kinks), thickness and top-truncation pairs (written as pairs, as single values, or left out where zero), min depth up to 300 km, 12% of the worlds in units of 1000 km with the dip point 0.4-0.7 units from the trench; points generated in slab coordinates (on, just off and far from the surface, beyond the tip and the trench ends). Both reported distances must equal the construction to 1 mm + 1e-9 scale (+ the Newton foot tolerance for points vertically below the trench line) and membership must follow the statement's rule. Spherical: trenches along a meridian or the equator (three radii, three depth methods), points in the perpendicular vertical plane, same construction with the radius-scaled allowance 4 d^2/R applied to the point's position.",
        note="The spherical allowance (a few per cent of the slab's extent) only exposes errors of the order of the extent itself (side, axis, unit, radius), not the depth-method corrections, which are of the order of the allowance; feet within 0.1% of a trench end, 1 mm of a segment end or ties within 1 m are skipped. Exactly collinear intermediate coordinates are a listed finding (kept at 10% of the cases).",
        design="DESIGN.md section 4, C06"),
    "C07": dict(
        technique="differential property-based testing (rapidcheck): the same world file built with and without the culling bounds (GWB_VERIF hook) must answer bit-identically; kd-tree guided surface lookup vs brute-force scan of the surface's own triangles",
        text="Curved slabs/faults in both coordinate systems (high latitudes, next to +-180, deep starts, long shallow north-south slabs, trenches ending 1.5-4 degrees from a pole, poleward-dipping slabs that pass the pole, short slabs, last segments that thicken downwards) probed at the rim of the region a member can occupy and near the slab tip; Objects::Surface objects built from generated node sets incl. spherical sets written beyond +-pi with queries normalised as callers do; Surface::minimum/maximum (the pre-test bounds) must equal the smallest/largest listed value.",
        note="The hook replaces bounding box and length cut-off by infinite bounds at parse time; area-feature min/max pre-tests are covered through the surface lookup and by C11's bisection probe.",
        design="DESIGN.md section 4, C07"),
    "C10": dict(
        technique="metamorphic property-based testing (rapidcheck, one process per case): re-layout of the same feature (inherited models pushed down, default segments repeated as explicit sections), locality of a section override, convexity/own-value checks on uniform section values and on thickness / top truncation / segment lengths via membership and per-segment temperatures",
        text="Slabs and faults with 2-5 coordinates, 1-3 segments and uniform temperature/composition/grains/velocity models at feature, section and segment level in random combinations. Re-layouts must not change any answer; values beside the trench must lie in the hull of the adjacent sections and equal a section's own value at its coordinate; changing one section must not change answers beyond its neighbours; membership must follow each section's own thickness/top truncation beside its coordinate and a convex combination in between; segment lengths that differ between two sections (zero included) must put the slab end and every segment boundary inside the hull of the two sections (beside a coordinate: at the section's own).",
        note="Trenches bend by at most 25 degrees, moderate latitudes; probes 2-30 km beside the trench.",
        design="DESIGN.md section 4, C10"),
    "C11": dict(
        technique="property-based testing (rapidcheck): Objects::Surface against nodal values / bounds / affine reproduction, and world-level bisection on the membership indicator to locate the depth surface actually used",
        text="Surfaces from 3-40 listed points (lattice, arbitrary metres, radians) and area features of all three types in both coordinate systems whose min or max depth is given at interior points and corners: listed value at listed points, bare default at unlisted corners, corner override, bounds, exact reproduction of affine data whatever the triangulation.",
        note="Spherical boundary nodes are probed 1e-7 inside. Two listed findings: corner with a zero coordinate (approx(0,0)), value point on a polygon edge (triangulator drops it).",
        design="DESIGN.md section 4, C11"),
    "C14": dict(
        technique="property-based generation (rapidcheck) of concurrent query streams executed under ThreadSanitizer behind a barrier, plus differential gwb-grid -j N vs -j 1 on the ThreadSanitizer build",
        text="2-32 threads each issue their own generated stream of batched 2D/3D requests and distance_to_plane calls against one world (shared pool of points inside the features), twice; no ThreadSanitizer report and every answer bit-equal to the single-thread answer. gwb-grid with node counts below/equal/not divisible by/far above the thread count writes byte-identical files for every -j.",
        note="Schedules are sampled, not enumerated; a race on a path no generated query executes stays invisible.",
        design="DESIGN.md section 4, C14"),
    "C17": dict(
        technique="property-based testing (rapidcheck) of the gwb-dat executable: generated world + data file, header-driven comparison of every printed token with the library's values formatted the same way; negative class of malformed rows",
        text="Data files with dim 2/3, 0-5 compositions, grain sets, convert spherical, comma/space separated, option lines in any order, comments, numbers in four spellings. Header names must be the requested columns, each row must repeat the input tokens and list the library's values under those names; malformed rows (too few/many columns, tokens that are not numbers or only start like one) and the documented-as-excluded combination of dim = 2 with 'convert spherical = true' (option lines in any order) must be reported, never answered with a complete table.",
        note="Two listed findings (3D header announces 'g'; 2D composition/grain columns shifted): the check classifies exactly those layouts and verifies everything else against them.",
        design="DESIGN.md section 4, C17"),
    "C18": dict(
        technique="property-based testing (rapidcheck) of the gwb-grid executable: generated world + grid file, VTU reader, reference lattice per grid type, library values at the lattice nodes, recomputation of the filtered / by-tag cell sets",
        text="Cartesian and chunk grids in 2D/3D, annulus, sphere; bounds, cell counts, compositions, -j, --filtered/--by-tag, --resolution-limit (counts capped), grid files re-styled (line order, comment lines, zero-padded counts, bounds in exponent notation, trailing commas), every vtu_output_format (ASCII, Base64Inline, Base64Appended, RawBinary, RawBinaryCompressed, absent) read by an independent VTK-XML reader (base64, appended offsets, zlib blocks). Well-formed mesh, node multiset equals the requested lattice, cell count, Depth, every node value equals the library's answer, filtered/by-tag files contain exactly the selected cells with unchanged node values.",
        note="ASCII output (6 digits): 2e-5 relative tolerance, boundary-ambiguous nodes skipped. Sphere grids: the block mapping is not re-derived; asserted are the counts of a closed shell mesh (12 nx^2 nz cells, (12 nx^2+2)(nz+1) nodes), equally spaced radii, every cell between two consecutive shells and a solid angle of 4 pi per layer.",
        design="DESIGN.md section 4, C18"),
    "C20": dict(
        technique="property-based testing (rapidcheck, one process per case): envelope, monotonicity (paired probes) and boundary-value invariants on cooling models",
        text="Oceanic half-space / plate / constant-age / linear models with ordered end members: value inside [top, bottom], rising with depth, falling with age (straight ridges: with the distance from the ridge line; any ridge polyline: with the distance to its closest point), boundary temperatures attained; slab mass-conserving and plate models between the surface temperature and the background adiabat wherever they change the temperature.",
        note="Gibbs allowance for the 100-term series near the surface; boundary values asserted for min depth 0 / constant max depth only; 35% of the oceanic plates have a point-wise thickness (envelope, depth and age order only).",
        design="DESIGN.md section 4, C20"),
    "C08": dict(
        technique="metamorphic property-based testing (rapidcheck, one process per case): world file and query moved by a generated rigid motion / longitude offset, answers compared with a boundary-robust tolerance",
        text="Generated worlds (every feature and model type, ridges, dip points, curved trenches, cross section) are rewritten under a rotation about the vertical plus translation (cartesian) or a common longitude offset (spherical; most offsets carry a feature onto +-180, beyond it, or a full turn) and queried at the moved points: temperature, compositions, grains and the tag string must agree to 1e-6 relative (the level of the Newton iteration that finds the trench foot). The 2D interface is compared too (the cross section moves with the world). A second sub-check aims at ridge-dependent cooling models: oblique ridges with one spreading velocity per point, offsets that put the ridge in another 360-degree copy than the query's natural longitude.",
        note="Plume 'rotation angles' are turned with the world; velocities excluded; cases where the original world's own answer changes within 2 cm are skipped and counted.",
        design="DESIGN.md section 4, C08"),
    "C09": dict(
        technique="property-based testing (rapidcheck): differential 2D entry point vs 3D entry point at the independently mapped point, velocity projection oracle, boundary-robust comparison",
        text="Generated worlds with cross sections of any origin/direction in both coordinate systems; 2D points projected from feature-aimed queries; every property list. The statement's mapping is recomputed independently, the 3D answer at the mapped point must equal the 2D answer (velocity as in-section component, vertical, 0 in cartesian worlds); worlds without cross section must refuse all four 2D entry points.",
        note="Tolerance 1e-7 relative because the mapped point is recomputed (rounding); cases next to a discontinuity of the 3D answer are skipped and counted.",
        design="DESIGN.md section 4, C09"),
    "C12": dict(
        technique="property-based testing (rapidcheck, one process per case) with a walker over the schema emitted by the tree under test + coverage-guided fuzzing (libFuzzer, ASan+UBSan): byte-level target and structure-aware target",
        text="(1) A valid generated world plus exactly one injected violation of the published schema (unknown key, missing required key, wrong JSON type, bad enum, wrong version), or one documented parallel list of different length, or an option documented as unavailable: the constructor must throw std::exception with a message. (2) Two formattings (whitespace, comments, key order, integer spellings) of one world must be accepted alike and answer bit-identically. (3) Schema-valid worlds with extreme numbers / emptied lists and arbitrary bytes: constructor and queries may throw but never crash; under libFuzzer every execution is checked by ASan/UBSan.",
        note="Schema reading is done by engine/schema_walk.h against the schema emitted at run time; UBSan is off inside the vendored rapidjson (see engine/ubsan_ignorelist.txt). Fuzzing samples the input space; hangs are detected up to 300 s.",
        design="DESIGN.md section 4, C12"),
    "C13": dict(
        technique="property-based testing (rapidcheck, one process per case) at targeted degenerate locations, repeated with the ASan+UBSan build of the same executable (memory errors / undefined behaviour invisible in release) + structure-aware libFuzzer target under ASan/UBSan with a finiteness oracle",
        text="Generated worlds inside the physical parameter domain, queried at polygon vertices/edges, trench coordinates and chords, dip point, slab tip region, below the trench, poles, +-180, planet centre (also |p|=1e-300), far away, model bottom, feature depth limits, with every property kind: the query returns only finite numbers or throws std::exception; a crash or hang of the child process is a failure. Special configurations: points exactly on a ridge at depth 0 (age zero), on corners where a point-wise max depth pinches out to the min depth, at depth 0 / max depth.",
        note="Degenerate *parameters* (zero specific heat etc.) are C12's domain and not asserted finite here.",
        design="DESIGN.md section 4, C13"),
    "C15": dict(
        technique="stateful property-based testing (rapidcheck, one process per case): twin-world differential over query histories, engine-state comparison for seeds, invariants on every returned grain",
        text="Worlds with random grains / random composition models in every feature type; seeds through the constructor and through 'random number seed' (0, 1, 2, INT_MAX-k and arbitrary values). Twin worlds queried alike agree bitwise at every step, worlds with different seeds start from different engine states, file seed equals constructor seed; every rotation matrix is orthonormal with determinant +1 (1e-12), normalised sizes sum to 1, fixed sizes come back verbatim, random compositions stay inside the bounds of their own entry.",
        note="'a draw happened' is observed through World::get_random_number_engine().",
        design="DESIGN.md section 4, C15"),
    "C16": dict(
        technique="property-based testing (rapidcheck): differential C API / C++ wrapper vs native World with identical call sequences; file-system observation of create_world's output directory",
        text="Generated worlds, points, property lists and create_world arguments (flag null/false/true, output_dir null/empty/relative with trailing slash, seeds up to 2^33): every C function and C++ wrapper method must return the native bits; the four declaration files must appear exactly in the requested directory; the seed must reach the random engine. 1-4 property lists of different lengths are used one after the other on the same handle, with 256 canary slots behind the announced output size; every case runs in a fresh process; a sanitizer stage repeats the cases with the ASan+UBSan build.",
        note="The reference world receives exactly the calls the wrapped world receives.",
        design="DESIGN.md section 4, C16"),
    "C19": dict(
        technique="property-based testing (rapidcheck): brute-force / exact-integer / dense-sampling oracles for kd-tree, polygon test, Bezier closest point, spherical conversions, great-circle distance; complete enumeration of small lattice polygons",
        text="Generated search with shrinking over node sets, lattice polygons (random and exhaustive on small lattices), trench polylines and point pairs; each kernel is compared with its definition computed independently (brute force, exact __int128-free integer arithmetic, dense sampling, atan2 formula). Finds wrong answers on the explored inputs; does not prove absence.",
        note="Trusted: the independent oracles in engine/props/c19.cc; 'noticeably closer' is read as more than 1e-5 of the distance plus 1e-6 of the curve length; boundary exactness only on exactly representable coordinates.",
        design="DESIGN.md section 4, C19"),
}

NOT_YET = "check not built yet in this session; planned with generated search as described in DESIGN.md section 4"


def main():
    checks = []
    for pid in ALL:
        if pid not in vfdriver.PROPS or pid not in META:
            continue
        m = META[pid]
        checks.append(dict(
            property_id=pid,
            quick_cmd="bin/verif check %s --tier quick" % pid,
            thorough_cmd="bin/verif check %s --tier thorough" % pid,
            evidence_file="/verif/evidence/%s.json" % pid,
            replay_cmd_template="bin/verif replay {path}",
            engine=vfdriver.PROPS[pid]["engine"],
            level_claimed=dict(category="exploration", text=m["text"], design_ref=m["design"]),
            level_note=m["note"],
            technique=m["technique"]))
    hooks_commits = []
    hc = os.path.join(VERIF, "hook_commits.txt")
    if os.path.exists(hc):
        hooks_commits = [l.strip() for l in open(hc) if l.strip()]
    man = dict(
        version=1,
        setup_cmd="bin/verif setup",
        hooks=dict(guard="GWB_VERIF",
                   enable="engine/CMakeLists.txt adds -DGWB_VERIF to CMAKE_CXX_FLAGS of every flavour (rel/asan/tsan) when it builds /repo as a sub-project into /verif/.build/<flavour>",
                   baseline_off_cmd="bin/verif baseline",
                   source_commits=hooks_commits,
                   add_only=True),
        engines=[
            dict(name="rc", path="engine/props", serves_properties=[p for p in ALL if vfdriver.PROPS.get(p, {}).get("engine") == "rc"],
                 kind_free_text="rapidcheck property executables linked against the library built from /repo's working tree; cases are plain JSON so shrunk failures replay without the library; world-level checks run every case in a forked child"),
            dict(name="libfuzzer", path="engine/fuzz", serves_properties=["C12", "C13"],
                 kind_free_text="libFuzzer targets built with ASan+UBSan (asan flavour): byte-level world-file target and structure-aware target sharing the generators"),
            dict(name="tsan", path="engine/tsan", serves_properties=["C14"],
                 kind_free_text="ThreadSanitizer build of the library, a thread harness and gwb-grid"),
        ],
        checks=checks,
        notes="All checks rebuild the library from /repo's working tree (CMake+Ninja, incremental) before running. known_findings.jsonl lists genuine defects that are reported as KNOWN-FINDING lines; fixed entries suppress nothing.",
        not_applicable=[dict(property_id=p, reason=NOT_YET) for p in ALL if p not in [c["property_id"] for c in checks]],
    )
    with open(os.path.join(VERIF, "MANIFEST.json"), "w") as f:
        json.dump(man, f, indent=1)
    print("MANIFEST.json: %d checks, %d not_applicable" % (len(checks), len(man["not_applicable"])))


if __name__ == "__main__":
    main()
