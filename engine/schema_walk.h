// Walks a JSON document alongside the JSON schema emitted by the tree under test and lists the places
// where a violation of the *published* schema can be injected.
#pragma once
#include "json.h"

namespace vf
{
  struct PathEl { bool is_index; size_t index; std::string key; };
  using Path = std::vector<PathEl>;

  inline J *resolve(J &doc, const Path &p)
  {
    J *cur = &doc;
    for (auto &e : p) cur = e.is_index ? &(*cur)[e.index] : &(*cur)[e.key];
    return cur;
  }
  inline std::string path_str(const Path &p)
  {
    std::string s;
    for (auto &e : p) s += e.is_index ? "[" + std::to_string(e.index) + "]" : "/" + e.key;
    return s.empty() ? "/" : s;
  }

  struct ObjectSite { Path path; const J *schema; };                    // an object whose schema node is known
  struct ValueSite { Path path; const J *schema; std::string key; };    // a property (path = the object) with its schema node

  inline bool type_matches(const J &doc, const std::string &t)
  {
    if (t == "object") return doc.is_obj();
    if (t == "array") return doc.is_arr();
    if (t == "string") return doc.is_str();
    if (t == "number") return doc.is_num();
    if (t == "integer") return doc.is_num() && std::floor(doc.n) == doc.n;
    if (t == "boolean") return doc.t == J::Bool;
    return false;
  }

  inline const J *pick_branch(const J &doc, const J &alts)
  {
    for (const auto &b : alts.a)
      {
        if (doc.is_obj() && b.has("properties") && b.at("properties").has("model") && doc.has("model") && doc.at("model").is_str())
          {
            const J &mp = b.at("properties").at("model");
            if (mp.has("enum"))
              for (const auto &e : mp.at("enum").a) if (e.is_str() && e.str() == doc.at("model").str()) return &b;
            continue;
          }
        if (!doc.is_obj() && b.has("type") && b.at("type").is_str() && type_matches(doc, b.at("type").str())) return &b;
      }
    return nullptr;
  }

  inline void collect_sites(const J &doc, const J &schema, Path &path, std::vector<ObjectSite> &objs, std::vector<ValueSite> &vals)
  {
    const J *s = &schema;
    if (!s->has("type"))
      {
        if (s->has("oneOf")) s = pick_branch(doc, s->at("oneOf"));
        else if (s->has("anyOf")) s = pick_branch(doc, s->at("anyOf"));
        if (!s) return;
      }
    if (!s->has("type") || !s->at("type").is_str()) return;
    const std::string t = s->at("type").str();
    if (t == "object" && doc.is_obj())
      {
        objs.push_back({path, s});
        if (!s->has("properties")) return;
        for (const auto &kv : doc.o)
          if (s->at("properties").has(kv.first))
            {
              const J &ps = s->at("properties").at(kv.first);
              vals.push_back({path, &ps, kv.first});
              path.push_back({false, 0, kv.first});
              collect_sites(kv.second, ps, path, objs, vals);
              path.pop_back();
            }
      }
    else if (t == "array" && doc.is_arr() && s->has("items"))
      for (size_t i = 0; i < doc.size(); ++i)
        {
          path.push_back({true, i, ""});
          collect_sites(doc[i], s->at("items"), path, objs, vals);
          path.pop_back();
        }
  }
} // namespace vf
