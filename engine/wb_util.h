// Helpers that touch the code under test: building a World from text, property lists, queries.
#pragma once
#include "harness.h"

#include "world_builder/world.h"
#include "world_builder/point.h"
#include "world_builder/utilities.h"
#include "world_builder/coordinate_systems/interface.h"

#include <memory>
#include <sys/stat.h>

namespace vf
{
  using PropList = std::vector<std::array<unsigned int, 3>>;

  inline const std::string &scratch_dir()
  {
    static std::string d = [] {
      std::string base = env("VERIF_TMP", "");
      if (base.empty())
        {
          struct stat sb;
          base = (::stat("/dev/shm", &sb) == 0) ? "/dev/shm" : "/var/tmp";
        }
      std::string dir = base + "/wbverif-" + std::to_string(::getpid());
      ::mkdir(dir.c_str(), 0700);
      static struct Cleaner { std::string d; ~Cleaner() { std::string c = "rm -rf '" + d + "'"; if (std::system(c.c_str())) {} } } cleaner{dir};
      return dir;
    }();
    return d;
  }

  inline void remove_scratch()
  {
    std::string c = "rm -rf '" + scratch_dir() + "'";
    if (std::system(c.c_str())) {}
  }

  // Build a world from JSON text. Throws whatever the library throws.
  inline std::unique_ptr<WorldBuilder::World> make_world(const std::string &text, unsigned long seed = 1, const char *slot = "w")
  {
    const std::string path = scratch_dir() + "/" + slot + ".wb";
    write_file(path, text);
    return std::unique_ptr<WorldBuilder::World>(new WorldBuilder::World(path, false, "", seed));
  }

  inline PropList props_from(const J &j)
  {
    PropList p;
    for (const auto &e : j.a) p.push_back({{static_cast<unsigned>(e[0].num()), static_cast<unsigned>(e[1].num()), static_cast<unsigned>(e[2].num())}});
    return p;
  }
  inline J props_to(const PropList &p)
  {
    J j = J::arr();
    for (auto &e : p) j.push(J::arr({J(e[0]), J(e[1]), J(e[2])}));
    return j;
  }
  inline unsigned prop_width(const std::array<unsigned, 3> &p) { return p[0] == 3 ? 10 * p[2] : (p[0] == 5 ? 3 : 1); }

  inline std::array<double, 3> p3(const J &j) { return {{j[0].num(), j[1].num(), j[2].num()}}; }
  inline std::array<double, 2> p2(const J &j) { return {{j[0].num(), j[1].num()}}; }
  inline J jp(double a, double b) { return J::arr({J(a), J(b)}); }
  inline J jp(double a, double b, double c) { return J::arr({J(a), J(b), J(c)}); }

  constexpr double PI = 3.14159265358979323846264338327950288;
  constexpr double DEG = PI / 180.0;

  // natural spherical (radius, lon[rad], lat[rad]) -> cartesian, written from the definition
  inline std::array<double, 3> sph2cart(double r, double lon, double lat)
  {
    return {{r * std::cos(lat) * std::cos(lon), r * std::cos(lat) * std::sin(lon), r * std::sin(lat)}};
  }
} // namespace vf
