// Reference geometry written from definitions (no code shared with the library).
#pragma once
#include <algorithm>
#include <cmath>
#include <vector>

namespace ref
{
  // ---------------------------------------------------------------- exact integer polygon oracle
  struct IP { long long x, y; };
  inline long long cross(IP a, IP b, IP c) { return (b.x - a.x) * (c.y - a.y) - (b.y - a.y) * (c.x - a.x); }
  inline bool on_seg(IP a, IP b, IP p)
  {
    return cross(a, b, p) == 0 && std::min(a.x, b.x) <= p.x && p.x <= std::max(a.x, b.x) && std::min(a.y, b.y) <= p.y && p.y <= std::max(a.y, b.y);
  }
  inline int sgn(long long v) { return (v > 0) - (v < 0); }
  inline bool seg_intersect(IP a, IP b, IP c, IP d)
  {
    const int d1 = sgn(cross(a, b, c)), d2 = sgn(cross(a, b, d)), d3 = sgn(cross(c, d, a)), d4 = sgn(cross(c, d, b));
    if (d1 * d2 < 0 && d3 * d4 < 0) return true;
    return on_seg(a, b, c) || on_seg(a, b, d) || on_seg(c, d, a) || on_seg(c, d, b);
  }
  inline bool simple_polygon(const std::vector<IP> &v)
  {
    const size_t n = v.size();
    if (n < 3) return false;
    long long area2 = 0;
    for (size_t i = 0; i < n; ++i) { const IP &a = v[i], &b = v[(i + 1) % n]; area2 += a.x * b.y - a.y * b.x; if (a.x == b.x && a.y == b.y) return false; }
    if (area2 == 0) return false;
    for (size_t i = 0; i < n; ++i)
      for (size_t j = i + 1; j < n; ++j)
        {
          const IP a = v[i], b = v[(i + 1) % n], c = v[j], d = v[(j + 1) % n];
          if (j == i + 1 || (i == 0 && j == n - 1))
            {
              const IP shared = (j == i + 1) ? b : a;
              const IP o1 = (j == i + 1) ? a : b;
              const IP o2 = (j == i + 1) ? d : c;
              if (cross(shared, o1, o2) == 0 && ((o1.x - shared.x) * (o2.x - shared.x) + (o1.y - shared.y) * (o2.y - shared.y)) > 0) return false;
              continue;
            }
          if (seg_intersect(a, b, c, d)) return false;
        }
    return true;
  }
  inline bool on_boundary(const std::vector<IP> &v, IP p)
  {
    for (size_t i = 0; i < v.size(); ++i) if (on_seg(v[i], v[(i + 1) % v.size()], p)) return true;
    return false;
  }
  // closed polygon membership: on the boundary, or crossing number odd (exact)
  inline bool exact_inside(const std::vector<IP> &v, IP p)
  {
    const size_t n = v.size();
    if (on_boundary(v, p)) return true;
    bool in = false;
    for (size_t i = 0, j = n - 1; i < n; j = i++)
      {
        const IP a = v[i], b = v[j];
        if ((a.y > p.y) != (b.y > p.y))
          {
            const long long lhs = (p.x - a.x) * (b.y - a.y), rhs = (p.y - a.y) * (b.x - a.x);
            if ((b.y - a.y) > 0 ? lhs < rhs : lhs > rhs) in = !in;
          }
      }
    return in;
  }

  // ---------------------------------------------------------------- long double polygon oracle with ambiguity band
  // returns +1 inside, -1 outside, 0 ambiguous (closer to the boundary than band * scale)
  inline int inside_ld(const std::vector<std::array<double, 2>> &v, double px, double py, double band)
  {
    const size_t n = v.size();
    long double scale = 0;
    for (auto &p : v) scale = std::max<long double>(scale, std::max(std::fabs(p[0] - px), std::fabs(p[1] - py)));
    bool in = false;
    for (size_t i = 0, j = n - 1; i < n; j = i++)
      {
        const long double ax = v[i][0], ay = v[i][1], bx = v[j][0], by = v[j][1];
        // distance of p to segment ab
        const long double dx = bx - ax, dy = by - ay;
        const long double l2 = dx * dx + dy * dy;
        long double t = l2 > 0 ? ((px - ax) * dx + (py - ay) * dy) / l2 : 0;
        t = std::max<long double>(0, std::min<long double>(1, t));
        const long double ex = ax + t * dx - px, ey = ay + t * dy - py;
        if (std::sqrt(ex * ex + ey * ey) <= band * scale) return 0;
        if ((ay > py) != (by > py))
          {
            const long double xi = ax + (py - ay) * (bx - ax) / (by - ay);
            if (px < xi) in = !in;
          }
      }
    return in ? 1 : -1;
  }

  // ---------------------------------------------------------------- plume (from the statement of C04)
  struct Plume
  {
    std::vector<double> depths, cx, cy, a, e, rot_deg; // cross sections, ascending depths; rot = degrees from north/Y, clockwise
    double dmin = 0, dmax = 0;
  };
  // value q of the membership form (q <= 1 inside); NaN-free; returns -1 if outside the depth range,
  // -2 if the configuration is degenerate at this depth (axis 0) and the point is not the centre
  inline double plume_q(const Plume &p, double x, double y, double depth, bool *degenerate = nullptr)
  {
    if (degenerate) *degenerate = false;
    if (depth < p.dmin || depth > p.dmax) return -1;
    const size_t n = p.depths.size();
    double cx, cy, a, e, rot;
    double zterm = 0;
    if (depth < p.depths[0])
      {
        cx = p.cx[0]; cy = p.cy[0]; a = p.a[0]; e = p.e[0]; rot = p.rot_deg[0];
        const double c = p.depths[0] - p.dmin;
        const double z = p.depths[0] - depth;
        zterm = (z * z) / (c * c);
      }
    else if (depth >= p.depths[n - 1]) { cx = p.cx[n - 1]; cy = p.cy[n - 1]; a = p.a[n - 1]; e = p.e[n - 1]; rot = p.rot_deg[n - 1]; }
    else
      {
        size_t i = 1;
        while (!(depth < p.depths[i])) ++i;
        const double f = (depth - p.depths[i - 1]) / (p.depths[i] - p.depths[i - 1]);
        cx = (1 - f) * p.cx[i - 1] + f * p.cx[i];
        cy = (1 - f) * p.cy[i - 1] + f * p.cy[i];
        a = (1 - f) * p.a[i - 1] + f * p.a[i];
        e = (1 - f) * p.e[i - 1] + f * p.e[i];
        double r1 = p.rot_deg[i - 1], r2 = p.rot_deg[i];
        if (std::fabs(r2 - r1) > 180) { if (r2 > r1) r1 += 360; else r2 += 360; } // shortest way round
        rot = (1 - f) * r1 + f * r2;
      }
    const double b = a * std::sqrt(1 - e * e);
    const double th = rot * (3.14159265358979323846 / 180.0);
    // unit vector of the semi-major axis: `rot` degrees clockwise from the Y axis / north
    const double ux = std::sin(th), uy = std::cos(th);
    const double xm = (x - cx) * ux + (y - cy) * uy;   // along the major axis
    const double ym = -(x - cx) * uy + (y - cy) * ux;  // along the minor axis
    if (!(a > 0) || !(b > 0))
      {
        if (degenerate) *degenerate = true;
        return (xm == 0 && ym == 0 && zterm <= 1) ? 0 : 2; // a degenerate ellipse contains at most its centre
      }
    return (xm * xm) / (a * a) + (ym * ym) / (b * b) + zterm;
  }

  // ---------------------------------------------------------------- planar slab construction (statement of C06)
  // Plane perpendicular to the trench through the foot point: x = horizontal offset from the trench towards the
  // dip-point side, y = -(depth - min depth); the surface starts at (0,0) and follows, segment after segment, a
  // straight line (equal dips) or a circular arc (dip varying linearly along the segment).
  struct Seg { double L, a0, a1; }; // length, dip at the start and at the end (radians)
  struct PlaneDist
  {
    double from = HUGE_VAL, along = HUGE_VAL; // signed distance (positive below the surface), distance along the surface
    int segment = -1;
    double frac = 0;        // fraction along the owning segment
    double margin = HUGE_VAL; // how far (in metres along the surface) the foot is from the nearest segment end; second-best gap
    double tie_gap = HUGE_VAL;
  };
  inline void lower_normal(double a, double &nx, double &ny) { nx = -std::sin(a); ny = -std::cos(a); }

  inline PlaneDist planar_slab(const std::vector<Seg> &segs, double x, double y)
  {
    PlaneDist best;
    double cx = 0, cy = 0, before = 0;
    double second = HUGE_VAL;
    for (size_t i = 0; i < segs.size(); ++i)
      {
        const Seg &s = segs[i];
        double from = HUGE_VAL, along = HUGE_VAL, margin = 0;
        bool owns = false;
        double ex, ey; // end of the segment
        if (s.a0 == s.a1)
          {
            const double dx = std::cos(s.a0), dy = -std::sin(s.a0);
            const double rx = x - cx, ry = y - cy;
            const double u = rx * dx + ry * dy;
            owns = u >= 0 && u <= s.L;
            from = -(dx * ry - dy * rx);
            along = u;
            margin = std::min(u, s.L - u);
            ex = cx + s.L * dx; ey = cy + s.L * dy;
          }
        else
          {
            const double da = s.a1 - s.a0;
            const double R = s.L / std::fabs(da);
            double nx, ny;
            lower_normal(s.a0, nx, ny);
            const double sgn = da > 0 ? 1.0 : -1.0; // centre on the lower side if the dip increases
            const double ox = cx + sgn * R * nx, oy = cy + sgn * R * ny;
            const double vx = x - ox, vy = y - oy;
            const double rho = std::sqrt(vx * vx + vy * vy);
            // dip angle of the surface point that lies on the ray from the centre through the query point
            const double a = da > 0 ? std::atan2(vx, vy) : std::atan2(-vx, -vy);
            const double lo = std::min(s.a0, s.a1), hi = std::max(s.a0, s.a1);
            owns = a >= lo && a <= hi && rho > 0;
            from = da > 0 ? R - rho : rho - R;
            along = R * std::fabs(a - s.a0);
            margin = R * std::min(a - lo, hi - a);
            double enx, eny;
            lower_normal(s.a1, enx, eny);
            ex = ox - sgn * R * enx; ey = oy - sgn * R * eny;
          }
        if (owns)
          {
            if (std::fabs(from) < std::fabs(best.from))
              {
                second = std::fabs(best.from);
                best.from = from; best.along = before + along; best.segment = static_cast<int>(i); best.frac = along / s.L; best.margin = margin;
              }
            else second = std::min(second, std::fabs(from));
          }
        else if (margin > -1e-3 * s.L) best.tie_gap = std::min(best.tie_gap, std::fabs(margin)); // barely missed this segment
        cx = ex; cy = ey; before += s.L;
      }
    if (best.segment >= 0) best.tie_gap = std::min(best.tie_gap, second - std::fabs(best.from));
    return best;
  }

  // forward map: point of the plane at distance `along` down the surface and signed normal offset `from`
  inline void planar_slab_point(const std::vector<Seg> &segs, double along, double from, double &x, double &y)
  {
    double cx = 0, cy = 0;
    for (size_t i = 0; i < segs.size(); ++i)
      {
        const Seg &s = segs[i];
        const bool last = i + 1 == segs.size();
        const double u = (along <= s.L || last) ? along : s.L;
        double px, py, a;
        if (s.a0 == s.a1) { a = s.a0; px = cx + u * std::cos(a); py = cy - u * std::sin(a); }
        else
          {
            const double da = s.a1 - s.a0, R = s.L / std::fabs(da), sgn = da > 0 ? 1.0 : -1.0;
            double nx, ny;
            lower_normal(s.a0, nx, ny);
            const double ox = cx + sgn * R * nx, oy = cy + sgn * R * ny;
            a = s.a0 + da * (u / s.L);
            double mx, my;
            lower_normal(a, mx, my);
            px = ox - sgn * R * mx; py = oy - sgn * R * my;
          }
        if (along <= s.L || last)
          {
            double nx, ny;
            lower_normal(a, nx, ny);
            x = px + from * nx; y = py + from * ny;
            return;
          }
        cx = px; cy = py; along -= s.L;
      }
  }
} // namespace ref
