// Fresh-process reference: answers computed by a process that has never constructed another world nor
// answered another query. A "pristine server" is forked at program start (before the harness touches the
// library); for every request it forks a grandchild that evaluates the request and exits, so no state can
// leak between requests, between worlds, or from the harness process into the reference.
#pragma once
#include "json.h"

#include <functional>
#include <signal.h>
#include <sys/types.h>
#include <sys/wait.h>
#include <unistd.h>

namespace vf
{
  class ProcRef
  {
    public:
      using Handler = std::function<J(const J &)>;

      void start(Handler h)
      {
        handler = std::move(h);
        int req[2], resp[2];
        if (pipe(req) != 0 || pipe(resp) != 0) throw std::runtime_error("pipe failed");
        server = fork();
        if (server < 0) throw std::runtime_error("fork failed");
        if (server == 0)
          {
            close(req[1]); close(resp[0]);
            serve(req[0], resp[1]);
            _exit(0);
          }
        close(req[0]); close(resp[1]);
        wfd = req[1]; rfd = resp[0];
      }

      // returns the handler's answer computed in a fresh process; {"error":...} if that process died
      J ask(const J &request)
      {
        const std::string text = request.dump();
        if (!write_msg(wfd, text)) throw std::runtime_error("reference server gone");
        std::string out;
        if (!read_msg(rfd, out)) throw std::runtime_error("reference server gone");
        return J::parse(out);
      }

      ~ProcRef()
      {
        if (server > 0) { close(wfd); close(rfd); int st; waitpid(server, &st, 0); }
      }

    private:
      Handler handler;
      pid_t server = -1;
      int wfd = -1, rfd = -1;

      static bool write_all(int fd, const char *p, size_t n)
      {
        while (n > 0) { const ssize_t k = ::write(fd, p, n); if (k <= 0) return false; p += k; n -= static_cast<size_t>(k); }
        return true;
      }
      static bool read_all(int fd, char *p, size_t n)
      {
        while (n > 0) { const ssize_t k = ::read(fd, p, n); if (k <= 0) return false; p += k; n -= static_cast<size_t>(k); }
        return true;
      }
      static bool write_msg(int fd, const std::string &s)
      {
        const uint64_t n = s.size();
        return write_all(fd, reinterpret_cast<const char *>(&n), sizeof n) && write_all(fd, s.data(), s.size());
      }
      static bool read_msg(int fd, std::string &s)
      {
        uint64_t n = 0;
        if (!read_all(fd, reinterpret_cast<char *>(&n), sizeof n)) return false;
        s.resize(n);
        return n == 0 || read_all(fd, &s[0], n);
      }

      void serve(int in, int out)
      {
        std::string msg;
        while (read_msg(in, msg))
          {
            int cp[2];
            if (pipe(cp) != 0) _exit(3);
            const pid_t child = fork();
            if (child == 0)
              {
                close(cp[0]);
                std::string ans;
                try { ans = handler(J::parse(msg)).dump(); }
                catch (const std::exception &e) { J err = J::obj(); err["error"] = std::string("exception: ") + e.what(); ans = err.dump(); }
                write_msg(cp[1], ans);
                _exit(0);
              }
            close(cp[1]);
            std::string ans;
            const bool got = read_msg(cp[0], ans);
            close(cp[0]);
            int st = 0;
            waitpid(child, &st, 0);
            if (!got) { J err = J::obj(); err["error"] = "reference process died (status " + std::to_string(st) + ")"; ans = err.dump(); }
            if (!write_msg(out, ans)) break;
          }
      }
  };

  inline std::string bits_hex(double v) { uint64_t u; std::memcpy(&u, &v, sizeof u); char b[20]; std::snprintf(b, sizeof b, "%016llx", static_cast<unsigned long long>(u)); return b; }
} // namespace vf
