"""libFuzzer stage of the C12 / C13 checks (asan flavour)."""
import os, re, json, glob, shutil, subprocess, hashlib, base64, time
import vfdriver as D

ASAN_ENV = dict(ASAN_OPTIONS="detect_leaks=0:malloc_context_size=0:quarantine_size_mb=8:abort_on_error=0:symbolize=1",
                UBSAN_OPTIONS="print_stacktrace=1:halt_on_error=1")

TARGETS = {
    "fz_construct": dict(max_len=16384, corpus="repo"),
    "fz_struct": dict(max_len=2048, corpus="random"),
}


def make_dictionary(path):
    words = set()
    for f in glob.glob(os.path.join(D.REPO, "tests", "gwb-dat", "*.wb")) + glob.glob(os.path.join(D.REPO, "cookbooks", "*", "*.wb")):
        try:
            words.update(re.findall(r'"([^"\\\n]{2,40})"', open(f, errors="replace").read()))
        except OSError:
            pass
    with open(path, "w") as out:
        for w in sorted(words):
            out.write('"%s"\n' % w.replace("\\", "\\\\").replace('"', '\\"'))
        for tok in ("NaN", "Infinity", "-Infinity", "1e308", "-1", "[]", "{}", "[[", "]]", "//", "/*", "*/"):
            out.write('"%s"\n' % tok)
    return len(words)


def signature_of(log):
    m = re.search(r"ORACLE-VIOLATION: (.*)", log)
    if m:
        return "oracle:" + m.group(1).strip()
    m = re.search(r"SUMMARY: (\w+): ([\w-]+) (\S+?):(\d+)(?::\d+)? in (.+)", log)
    if m:
        return "%s:%s@%s" % (m.group(1), m.group(2), m.group(5).strip()[:80])
    m = re.search(r"runtime error: (.*)", log)
    if m:
        what = re.sub(r"0x[0-9a-f]+", "<addr>", m.group(1).strip())[:100]
        fr = re.search(r"#0 0x[0-9a-f]+ in (.+?) /", log[m.end():])
        return "ubsan:" + what + ("@" + fr.group(1).strip()[:120] if fr else "")
    if "deadly signal" in log:
        return "deadly-signal"
    return "crash"


def run_artifact(exe, path, timeout=180):
    try:
        r = subprocess.run([exe, path], stdout=subprocess.PIPE, stderr=subprocess.STDOUT, text=True, errors="replace", timeout=timeout,
                           env=dict(os.environ, **ASAN_ENV))
        return r.returncode, r.stdout
    except subprocess.TimeoutExpired:
        return "timeout", "did not finish within %d s" % timeout


def wrap_artifact(pid, target, data, log, sig):
    return dict(property=pid, engine="fuzz", target=target, signature=sig, artifact_b64=base64.b64encode(data).decode(),
                artifact_text=data.decode("utf-8", errors="replace")[:4000], log_tail=log[-3000:])


def replay_file(pid, path):
    """re-run a saved fuzz replay; returns (failed?, signature, log)"""
    d = json.load(open(path))
    bdir = D.build("asan", [d["target"]])
    tmp = os.path.join(D.WORK, "replay-%d.bin" % os.getpid())
    os.makedirs(D.WORK, exist_ok=True)
    with open(tmp, "wb") as f:
        f.write(base64.b64decode(d["artifact_b64"]))
    rc, log = run_artifact(os.path.join(bdir, d["target"]), tmp)
    os.unlink(tmp)
    return (rc != 0), signature_of(log), log


def run_fuzz(pid, targets, tier, seed, want):
    """want(signature) -> True if a failure with this signature belongs to property `pid`.
    Returns (violations [(replay path, message)], known {sig: what}, coverage dict, notes)."""
    t0 = time.time()
    bdir = D.build("asan", list(targets))
    work = os.path.join(D.WORK, "%s-fuzz-%s-%d" % (pid, tier, os.getpid()))
    shutil.rmtree(work, ignore_errors=True)
    os.makedirs(work)
    known = [k for k in D.load_known() if k["property"] == pid and k["status"] == "known"]
    violations, known_lines, notes = [], {}, []
    # saved fuzz replays first
    n_replayed = 0
    for path in sorted(glob.glob(os.path.join(D.REPLAYS, pid, "fuzz-*.json")) + glob.glob(os.path.join(D.VERIF, "known", pid, "fuzz-*.json"))):
        failed, sig, log = replay_file(pid, path)
        n_replayed += 1
        if failed and want(sig):
            kk = [k for k in known if k["signature"] == sig]
            if kk:
                known_lines[sig] = kk[0]["what"]
            else:
                violations.append((path, "saved fuzz input still fails: " + sig))
    dict_path = os.path.join(work, "wb.dict")
    make_dictionary(dict_path)
    workers = min(D.NCPU, 6 if tier == "quick" else 16)
    runs = {"quick": 250, "thorough": 6000}[tier]
    tmpbase = "/dev/shm/wbf-%d" % os.getpid() if os.path.isdir("/dev/shm") else os.path.join(work, "tmp")
    os.makedirs(tmpbase, exist_ok=True)
    procs = []
    per_target_workers = max(1, workers // len(targets)) if tier == "quick" else workers
    for t in targets:
        cfg = TARGETS[t]
        for i in range(per_target_workers):
            corpus = os.path.join(work, "corpus-%s-%d" % (t, i))
            os.makedirs(corpus)
            if cfg["corpus"] == "repo" and i % 2 == 0:   # half of the workers start from the repository's files, half from nothing
                for f in glob.glob(os.path.join(D.REPO, "tests", "gwb-dat", "*.wb")):
                    shutil.copy(f, corpus)
            if cfg["corpus"] == "random":
                # the structured target decodes bytes into generator choices: start from blobs long enough to drive a whole world
                import random
                rng = random.Random(seed * 1000 + i)
                for k in range(24):
                    with open(os.path.join(corpus, "seed-%02d" % k), "wb") as f:
                        f.write(bytes(rng.getrandbits(8) for _ in range(rng.choice([256, 512, 1024, 2048]))))
            art = os.path.join(work, "art-%s-%d/" % (t, i))
            os.makedirs(art)
            stats = os.path.join(work, "stats-%s-%d.txt" % (t, i))
            cmd = [os.path.join(bdir, t), "-runs=%d" % runs, "-seed=%d" % (seed * 100 + i + 1), "-max_len=%d" % cfg["max_len"], "-len_control=0", "-timeout=60",
                   "-rss_limit_mb=6000", "-artifact_prefix=" + art, "-dict=" + dict_path, "-print_final_stats=1", corpus]
            logf = open(os.path.join(work, "log-%s-%d.txt" % (t, i)), "w")
            env = dict(os.environ, VERIF_FUZZ_STATS=stats, VERIF_TMP=tmpbase, **ASAN_ENV)
            procs.append((t, i, subprocess.Popen(cmd, stdout=logf, stderr=subprocess.STDOUT, env=env), logf, art, stats))
    budget = {"quick": 240, "thorough": 1500}[tier]
    for t, i, p, logf, art, stats in procs:
        try:
            p.wait(timeout=max(5, budget - (time.time() - t0)))
        except subprocess.TimeoutExpired:
            p.terminate()
            try:
                p.wait(timeout=10)
            except subprocess.TimeoutExpired:
                p.kill()
            notes.append("%s worker %d stopped at the wall-clock budget" % (t, i))
        logf.close()
    # collect
    execs = {t: 0 for t in targets}
    counters = {t: [0] * 6 for t in targets}
    seen_sig = set()
    samples = []
    for t, i, p, logf, art, stats in procs:
        log = open(os.path.join(work, "log-%s-%d.txt" % (t, i)), errors="replace").read()
        m = re.search(r"stat::number_of_executed_units:\s*(\d+)", log)
        if m:
            execs[t] += int(m.group(1))
        else:
            mm = re.findall(r"^#(\d+)\s", log, re.M)
            if mm:
                execs[t] += int(mm[-1])
        if os.path.exists(stats):
            for line in open(stats):
                vals = [int(x) for x in line.split()]
                counters[t] = [a + b for a, b in zip(counters[t], vals)]
        corpus = os.path.join(work, "corpus-%s-%d" % (t, i))
        if len(samples) < 4:
            for f in sorted(os.listdir(corpus))[:1]:
                samples.append(dict(target=t, input=open(os.path.join(corpus, f), "rb").read()[:600].decode("utf-8", errors="replace")))
        for f in sorted(os.listdir(art)):
            full = os.path.join(art, f)
            data = open(full, "rb").read()
            if f.startswith("crash-") or f.startswith("leak-"):
                results = [run_artifact(os.path.join(bdir, t), full) for _ in range(3)]
                if not all(r[0] != 0 for r in results):
                    notes.append("%s: artifact %s did not reproduce 3x (%s): inconclusive" % (t, f, [r[0] for r in results]))
                    continue
                sig = signature_of(results[0][1])
                if not want(sig) or (t, sig) in seen_sig:
                    continue
                seen_sig.add((t, sig))
                kk = [k for k in known if k["signature"] == sig]
                if kk:
                    known_lines[sig] = kk[0]["what"]
                    continue
                rep = wrap_artifact(pid, t, data, results[0][1], sig)
                os.makedirs(os.path.join(D.NEW_REPLAYS, pid), exist_ok=True)
                dst = os.path.join(D.NEW_REPLAYS, pid, "fuzz-%s-%s.json" % (t, hashlib.sha1(data).hexdigest()[:10]))
                json.dump(rep, open(dst, "w"), indent=1)
                violations.append((dst, "%s: %s" % (t, sig)))
            elif f.startswith("timeout-"):
                rc, log2 = run_artifact(os.path.join(bdir, t), full, timeout=300)
                if rc == "timeout" and want("hang"):
                    rep = wrap_artifact(pid, t, data, log2, "hang")
                    os.makedirs(os.path.join(D.NEW_REPLAYS, pid), exist_ok=True)
                    dst = os.path.join(D.NEW_REPLAYS, pid, "fuzz-%s-%s.json" % (t, hashlib.sha1(data).hexdigest()[:10]))
                    json.dump(rep, open(dst, "w"), indent=1)
                    violations.append((dst, "%s: input does not terminate within 300 s" % t))
                else:
                    notes.append("%s: slow input %s finished when re-run alone (load noise)" % (t, f))
            else:
                notes.append("%s: %s ignored (oom/slow-unit are load noise)" % (t, f))
    cov = dict(executions={t: execs[t] for t in targets},
               counters={t: dict(zip(["execs", "got_past_generation", "constructed", "rejected_with_exception", "queries", "queries_that_threw"], counters[t])) for t in targets},
               workers=len(procs), runs_per_worker=runs, saved_fuzz_inputs_rerun=n_replayed, samples=samples, wall_s=round(time.time() - t0, 1))
    shutil.rmtree(work, ignore_errors=True)
    shutil.rmtree(tmpbase, ignore_errors=True)
    return violations, known_lines, cov, notes
