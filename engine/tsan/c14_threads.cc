// C14 (a) — executed under ThreadSanitizer: N threads query one world concurrently, started together behind a barrier.
// Input: a case file (JSON). Output: one line "RESULT mismatches=<n> queries=<n> threads=<n>"; ThreadSanitizer reports
// go to stderr and set the exit code (TSAN_OPTIONS exitcode=66).
#include "../wb_util.h"

#include "world_builder/wrapper_c.h"

#include <atomic>
#include <thread>

using namespace vf;
namespace WB = WorldBuilder;

static std::vector<double> run(const WB::World &w, const J &s)
{
  if (s.has("plane"))
    {
      const WB::Objects::PlaneDistances d = w.distance_to_plane(p3(s.at("q").at("p")), s.at("q").at("depth").num(), s.at("plane").str());
      return {d.get_distance_from_surface(), d.get_distance_along_surface()};
    }
  const PropList pl = props_from(s.at("props"));
  if (s.has("via_c") && s.at("via_c").boolean())
    {
      // the same request through the C interface (the handle it takes is the address of the world)
      std::vector<unsigned int> flat;
      for (auto &p : pl) { flat.push_back(p[0]); flat.push_back(p[1]); flat.push_back(p[2]); }
      const unsigned int (*cprops)[3] = reinterpret_cast<const unsigned int (*)[3]>(flat.data());
      void *handle = const_cast<WB::World *>(&w);
      std::vector<double> out(properties_output_size(handle, cprops, static_cast<unsigned>(pl.size())));
      if (s.at("dim").num() == 2) { const auto q = p2(s.at("q").at("p2")); properties_2d(handle, q[0], q[1], s.at("q").at("depth").num(), cprops, static_cast<unsigned>(pl.size()), out.data()); }
      else { const auto q = p3(s.at("q").at("p")); properties_3d(handle, q[0], q[1], q[2], s.at("q").at("depth").num(), cprops, static_cast<unsigned>(pl.size()), out.data()); }
      return out;
    }
  if (s.at("dim").num() == 2) return w.properties(p2(s.at("q").at("p2")), s.at("q").at("depth").num(), pl);
  return w.properties(p3(s.at("q").at("p")), s.at("q").at("depth").num(), pl);
}

int main(int argc, char **argv)
{
  if (argc < 2) return 2;
  const J c = J::parse_file(argv[1]);
  auto W = make_world(c.at("world").str());
  const size_t nt = c.at("threads").size();
  // single-thread reference answers (bit patterns); a throwing query is recorded as such
  std::vector<std::vector<std::vector<double>>> ref(nt);
  std::vector<std::vector<bool>> ref_threw(nt);
  size_t nq = 0;
  for (size_t t = 0; t < nt; ++t)
    for (const auto &s : c.at("threads")[t].a)
      {
        ++nq;
        try { ref[t].push_back(run(*W, s)); ref_threw[t].push_back(false); }
        catch (const std::exception &) { ref[t].emplace_back(); ref_threw[t].push_back(true); }
      }
  std::atomic<size_t> ready{0};
  std::atomic<bool> go{false};
  std::atomic<size_t> mismatches{0};
  std::vector<std::thread> threads;
  const int rounds = static_cast<int>(c.get("rounds", J(2)).num());
  for (size_t t = 0; t < nt; ++t)
    threads.emplace_back([&, t] {
      ready++;
      while (!go.load(std::memory_order_acquire)) {}
      for (int r = 0; r < rounds; ++r)
        for (size_t i = 0; i < c.at("threads")[t].size(); ++i)
          {
            std::vector<double> a;
            bool threw = false;
            try { a = run(*W, c.at("threads")[t][i]); }
            catch (const std::exception &) { threw = true; }
            if (threw != ref_threw[t][i] || a.size() != ref[t][i].size() || (!a.empty() && std::memcmp(a.data(), ref[t][i].data(), a.size() * sizeof(double)) != 0)) mismatches++;
          }
    });
  while (ready.load() < nt) {}
  go.store(true, std::memory_order_release);
  for (auto &th : threads) th.join();
  std::printf("RESULT mismatches=%zu queries=%zu threads=%zu\n", mismatches.load(), nq, nt);
  return mismatches.load() ? 3 : 0;
}
