"""Driver logic: builds, runs harness processes, replays, known findings, evidence."""
import sys, os, json, subprocess, time, shutil, glob, argparse, fcntl, hashlib, tempfile

VERIF = os.path.dirname(os.path.dirname(os.path.abspath(__file__)))
# The tree under test is /repo. For mutation experiments the environment can point the driver at
# another tree; then builds, evidence and new replays go to a separate sandbox directory so that
# nothing registered in MANIFEST.json is disturbed.
REPO = os.environ.get("VERIF_REPO", "/repo")
ALT = os.environ.get("VERIF_SANDBOX", "")
BUILD = os.path.join(ALT, "build") if ALT else os.path.join(VERIF, ".build")
WORK = os.path.join(ALT, "work") if ALT else os.path.join(VERIF, ".work")
EVID = os.path.join(ALT, "evidence") if ALT else os.path.join(VERIF, "evidence")
REPLAYS = os.path.join(VERIF, "replays")          # saved regression cases are always re-run
NEW_REPLAYS = os.path.join(ALT, "replays") if ALT else REPLAYS
KNOWN_FILE = os.path.join(VERIF, "known_findings.jsonl")
NCPU = os.cpu_count() or 4

COMPILERS = {"rel": "g++", "asan": "clang++", "tsan": "clang++"}

# ------------------------------------------------------------------------------------------------
# property table. engine "rc": a rapidcheck executable built in the `rel` flavour.
# quick/thorough: (multiplier on each sub-check's base case count, number of parallel seeds)
PROPS = {
    "C20": dict(engine="rc", exe="c20", quick=(2, 8), thorough=(20, 16),
                assumptions=["'attained at the model's own top/bottom' is asserted for models whose min depth is 0 and whose max depth is constant (the documentation calls the top temperature the surface temperature)",
                             "the 100-term plate series may overshoot next to the surface at young ages (Gibbs): 9% of the jump is allowed at depths shallower than 2% of the plate thickness",
                             "slab probes come from the planar construction validated by C06; ambient = background adiabat (single-feature worlds)"]),
    "C05": dict(engine="rc", exe="c05", quick=(2, 8), thorough=(20, 16), san=dict(quick=(0.1, 4), thorough=(1.5, 6)),
                assumptions=["oracles are written from the parameter documentation; where it is not specific (smooth composition, Euler-angle convention, slab/fault sentinel depths) only the weaker documented part is asserted",
                             "ridge models are checked in cartesian worlds with a ridge along x = const (distance to the ridge is then |x - x_ridge| by definition)",
                             "slab/fault distances come from the planar construction validated by C06"]),
    "C18": dict(engine="rc", exe="c18", quick=(2, 8), thorough=(20, 16),
                extra_builds=[("rel", ["gwb-grid"], {"VERIF_GWB_GRID": "wb/bin/gwb-grid"})],
                assumptions=["ASCII VTU output (6 significant digits): node values are compared with 2e-5 relative tolerance at the exact lattice node; a node whose library answer changes between the printed and the exact position is skipped",
                             "sphere grids: mesh validity, Depth and node values are checked, the node lattice itself is not re-derived"]),
    "C17": dict(engine="rc", exe="c17", quick=(2, 8), thorough=(20, 16),
                extra_builds=[("rel", ["gwb-dat"], {"VERIF_GWB_DAT": "wb/bin/gwb-dat"})],
                assumptions=["values are compared as the text an output stream with default precision produces (what the tool uses)",
                             "'reported' for a malformed row = non-zero exit status or an error message on stdout/stderr"]),
    "C14": dict(engine="rc", exe="c14", quick=(1, 6), thorough=(12, 16),
                extra_builds=[("tsan", ["c14_threads", "gwb-grid"], {"VERIF_TSAN_EXE": "c14_threads", "VERIF_TSAN_GRID": "wb/bin/gwb-grid"})],
                assumptions=["schedules are sampled, not enumerated: ThreadSanitizer flags an unsynchronised conflicting pair whenever both accesses execute, but a race on a path no generated query reaches stays invisible",
                             "worlds without random models (the statement's scope)"]),
    "C11": dict(engine="rc", exe="c11", quick=(2, 8), thorough=(20, 16), san=dict(quick=(0.1, 4), thorough=(1.5, 6)),
                assumptions=["the depth used by a feature is observed by bisection on the membership indicator (resolves to 1e-10 m, compared with 1 mm tolerance)",
                             "every corner gets the bare '[value]' entry as documented default"]),
    "C10": dict(engine="rc", exe="c10", quick=(2, 8), thorough=(20, 16), san=dict(quick=(0.1, 4), thorough=(1.5, 6)),
                assumptions=["trenches bend by at most 25 degrees and probe points sit 2..30 km beside the trench, so the foot of a point generated beside trench segment k lies on segment k-1, k or k+1",
                             "models are uniform (values recognisable exactly)"]),
    "C07": dict(engine="rc", exe="c07", quick=(2, 8), thorough=(20, 16),
                assumptions=["slab/fault shortcuts are switched off through the GWB_VERIF hook (infinite bounding box and length cut-off) at parse time; both worlds are built from the same text in one process",
                             "the nearest-triangle search is compared with a scan of the triangles the Surface object itself exposes; the triangulation as such is C11's subject"]),
    "C06": dict(engine="rc", exe="c06", quick=(2, 8), thorough=(20, 16),
                assumptions=["cartesian worlds; the dip point is placed 5e7 m from the trench; feet within 0.1% of a trench end, within 1 mm of a segment end, or with two segments tying within 1 m are skipped (the statement fixes no rule there)",
                             "tolerance 1 mm + 1e-9 x coordinate scale on both distances"]),
    "C08": dict(engine="rc", exe="c08", quick=(2, 8), thorough=(20, 16),
                assumptions=["a plume's 'rotation angles' are turned with the world (they describe the ellipse orientation in map view)",
                             "velocities are not compared (raw cartesian components, not co-rotated)",
                             "mismatches where the original world's own answer changes within 2 cm / 2e-7 degrees are counted as boundary-ambiguous and skipped"]),
    "C12": dict(engine="rc", exe="c12", quick=(1, 6), thorough=(20, 16),
                fuzz=dict(targets=["fz_construct", "fz_struct"], want=lambda sig: "non-finite" not in sig),
                assumptions=["'violates the published schema' is judged against the schema emitted by the tree under test, walked by engine/schema_walk.h",
                             "this executable runs without sanitizers; every case runs in its own process so that SIGSEGV/abort are seen; the sanitizer/fuzzing part is run by the same check (see coverage.fuzz)"]),
    "C13": dict(engine="rc", exe="c13", quick=(1, 6), thorough=(20, 16), san=dict(quick=(0.25, 6), thorough=(3, 8)),
                fuzz=dict(targets=["fz_struct"], want=lambda sig: "non-finite" in sig),
                assumptions=["world parameters stay inside the physical domain (positive constants, dips in (0,180), thickness > 0); degenerate *parameters* belong to C12",
                             "a query may throw std::exception with a message; it may not crash, hang (120 s per case) or return NaN/Inf"]),
    "C15": dict(engine="rc", exe="c15", quick=(1, 4), thorough=(20, 16), san=dict(quick=(0.1, 4), thorough=(1.5, 6)),
                assumptions=["'a draw happened' is observed by comparing the world's public engine state before and after a query",
                             "rotation validity tolerance 1e-12 on R^T R - I and det R - 1"]),
    "C16": dict(engine="rc", exe="c16", quick=(1, 4), thorough=(20, 16), san=dict(quick=(0.1, 4), thorough=(1.5, 6)),
                assumptions=["the native reference world receives exactly the same sequence of calls as the wrapped one (random models draw per call)",
                             "declaration files are observed by listing a scratch working directory"]),
    "C09": dict(engine="rc", exe="c09", quick=(2, 8), thorough=(20, 16),
                assumptions=["2D and 3D answers are compared to 1e-7 relative (the mapping is recomputed independently, so the mapped point can differ by rounding); mismatches next to a discontinuity of the 3D answer itself are skipped",
                             "velocity convention asserted for cartesian worlds only, as in the statement"]),
    "C04": dict(engine="rc", exe="c04", quick=(2, 8), thorough=(15, 16),
                assumptions=["boundary points are asserted only where coordinates are exactly representable (cartesian lattice); elsewhere a 1e-9 relative band is skipped",
                             "plumes are kept away from the +-180 meridian here (longitude aliases of plumes belong to C08)"]),
    "C02": dict(engine="rc", exe="c02", quick=(1, 6), thorough=(15, 16), san=dict(quick=(0.1, 4), thorough=(1.5, 6)),
                assumptions=["which features contain a point is decided by the code itself on single-feature worlds (independent of the stack)",
                             "fold oracle covers uniform temperature/composition models; other models are covered by the deletion/permutation relation",
                             "velocity: only 'a slab/fault without velocity models leaves the velocity as it was' is asserted"]),
    "C01": dict(engine="rc", exe="c01", quick=(1, 6), thorough=(15, 16), san=dict(quick=(0.2, 6), thorough=(2, 8)),
                assumptions=["random models are excluded (C15 covers them)", "'stand-alone' = the same entry point with a one-element list on a twin world built from the same file, plus temperature()/composition()/grains()"]),
    "C03": dict(engine="rc", exe="c03", quick=(1, 8), thorough=(20, 16),
                assumptions=["'outside every feature' is established by construction (far points) or by the code's own tag == -1",
                             "background closed form evaluated in double with relative tolerance 1e-13"]),
    "C19": dict(engine="rc", exe="c19", quick=(1, 4), thorough=(12, 16), san=dict(quick=(0.1, 4), thorough=(1.5, 6)),
                assumptions=["dense sampling (4000 samples per curve segment) stands for 'every curve point'",
                             "exact polygon oracle restricted to coordinates whose arithmetic is exact in double",
                             "great-circle oracle atan2(|axb|,a.b) evaluated in double; tolerance 3e-8 rad"]),
}


def log(*a):
    print(*a, file=sys.stderr, flush=True)


# ------------------------------------------------------------------------------------------------
def build(flavour, targets):
    """(Re)build `targets` of a flavour from REPO's current working tree. Returns build dir."""
    bdir = os.path.join(BUILD, flavour)
    os.makedirs(bdir, exist_ok=True)
    with open(os.path.join(bdir, ".lock"), "w") as lk:
        fcntl.flock(lk, fcntl.LOCK_EX)
        t0 = time.time()
        # always re-configure: the repository globs its sources at configure time
        cfg = ["cmake", "-G", "Ninja", "-S", os.path.join(VERIF, "engine"), "-B", bdir,
               "-DFLAVOUR=" + flavour, "-DREPO=" + REPO, "-DCMAKE_CXX_COMPILER=" + COMPILERS[flavour]]
        r = subprocess.run(cfg, stdout=subprocess.PIPE, stderr=subprocess.STDOUT, text=True)
        if r.returncode != 0:
            log(r.stdout[-4000:])
            raise SystemExit(2)
        r = subprocess.run(["ninja", "-C", bdir, "-j", str(NCPU)] + list(targets),
                           stdout=subprocess.PIPE, stderr=subprocess.STDOUT, text=True)
        if r.returncode != 0:
            log(r.stdout[-6000:])
            log("BUILD-ERROR flavour=%s targets=%s" % (flavour, " ".join(targets)))
            raise SystemExit(2)
        log("[build %s %s: %.1fs]" % (flavour, " ".join(targets), time.time() - t0))
    return bdir


def load_known():
    out = []
    if os.path.exists(KNOWN_FILE):
        for line in open(KNOWN_FILE):
            line = line.strip()
            if line and not line.startswith("#"):
                out.append(json.loads(line))
    return out


def sanitizer_summary(text):
    """first line of an ASan / UBSan report in a log"""
    for line in text.splitlines():
        if "ERROR: AddressSanitizer" in line or "runtime error:" in line:
            return line.strip()[:400]
    return ""


def run_replay(exe, path, timeout=600, env_extra=None):
    """returns (status, signature, known, text) with status in pass|fail|error"""
    try:
        r = subprocess.run([exe, "--replay", path], stdout=subprocess.PIPE, stderr=subprocess.STDOUT, text=True, timeout=timeout, errors="replace",
                           env=dict(os.environ, **dict(env_extra or {}, VERIF_KNOWN=KNOWN_FILE)))
    except subprocess.TimeoutExpired:
        return "error", "", False, "timeout"
    out = r.stdout
    if "REPLAY-PASS" in out:
        return "pass", "", False, out
    if "REPLAY-FAIL" in out:
        sig = ""
        known = " known=1" in out
        for tok in out.split():
            if tok.startswith("signature="):
                sig = tok[len("signature="):]
        return "fail", sig, known, out
    if r.returncode < 0 or r.returncode > 2:
        # the code under test crashed while replaying: that is a failure of the case
        return "fail", "crash-signal-%d" % r.returncode, False, out[-2000:]
    return "error", "", False, out[-2000:]


def run_seed_replay(exe, cfg, seed_i, mult, sub, tmpbase):
    """Re-run one harness process exactly as the search ran it (same seed, same multiplier, all sub-checks in order) and report
    whether sub-check `sub` fails again: the reproducible unit for a failure that depends on what the process did before the case."""
    wd = tempfile.mkdtemp(prefix="seedreplay-", dir=tmpbase)
    env = dict(os.environ, VERIF_MULT=str(mult), VERIF_OUT=wd, VERIF_SEED=str(seed_i), VERIF_TAG="r", VERIF_KNOWN=KNOWN_FILE, VERIF_TMP=tmpbase)
    subprocess.run([exe] + cfg.get("args", []), env=env, stdout=subprocess.PIPE, stderr=subprocess.STDOUT)
    frag = os.path.join(wd, "r.frag.json")
    res = (False, "", "")
    if os.path.exists(frag):
        d = json.load(open(frag))
        sm = d["subs"].get(sub)
        if sm and sm["status"] == "fail":
            res = (True, sm.get("failure_signature", ""), sm.get("failure_message", ""))
    shutil.rmtree(wd, ignore_errors=True)
    return res


def save_replay(pid, src, label, extra=None):
    os.makedirs(os.path.join(NEW_REPLAYS, pid), exist_ok=True)
    data = open(src, "rb").read()
    if extra:
        d = json.loads(data)
        d.update(extra)
        data = json.dumps(d).encode()
    h = hashlib.sha1(data).hexdigest()[:10]
    dst = os.path.join(NEW_REPLAYS, pid, "%s-%s.json" % (label, h))
    with open(dst, "wb") as f:
        f.write(data)
    return dst


def write_evidence(pid, tier, seed, coverage, assumptions, wall, violations, extra=None):
    os.makedirs(EVID, exist_ok=True)
    ev = dict(property_id=pid, tier=tier, seed=seed, level="exploration", coverage=coverage,
              assumptions=assumptions, wall_s=round(wall, 2), violations=violations)
    if extra:
        ev.update(extra)
    tmp = os.path.join(EVID, pid + ".json.tmp")
    with open(tmp, "w") as f:
        json.dump(ev, f, indent=1)
    os.replace(tmp, os.path.join(EVID, pid + ".json"))


# ------------------------------------------------------------------------------------------------
def extra_builds(cfg):
    """tools / sanitizer executables a check runs as child processes; their paths reach the harness through the environment"""
    for fl, targets, envmap in cfg.get("extra_builds", []):
        xb = build(fl, targets)
        for k, rel in envmap.items():
            os.environ[k] = os.path.join(xb, rel)


def check_rc(pid, cfg, tier, seed):
    t0 = time.time()
    bdir = build("rel", [cfg["exe"]] + cfg.get("extra_targets", []))
    exe = os.path.join(bdir, cfg["exe"])
    extra_builds(cfg)
    mult, procs = cfg[tier]
    procs = min(procs, NCPU)
    work = os.path.join(WORK, "%s-%s-%d" % (pid, tier, os.getpid()))
    shutil.rmtree(work, ignore_errors=True)
    os.makedirs(work)
    # scratch files of the harness processes (world files) live on tmpfs and are removed with the run
    tmpbase = "/dev/shm/wbv-%d" % os.getpid() if os.path.isdir("/dev/shm") else os.path.join(work, "tmp")
    os.makedirs(tmpbase, exist_ok=True)
    os.environ["VERIF_TMP"] = tmpbase
    known = [k for k in load_known() if k["property"] == pid]
    violations = []      # (replay path, message)
    known_lines = {}     # signature -> what
    notes = []

    # 1. regression tier: saved replays and known-finding demonstrations
    regress = sorted(glob.glob(os.path.join(REPLAYS, pid, "*.json"))) + sorted(glob.glob(os.path.join(VERIF, "known", pid, "*.json")))
    n_regress = 0
    for path in regress:
        if os.path.basename(path).startswith("fuzz-"):
            continue  # re-run by the fuzz stage
        rexe, renv = exe, None
        try:
            dd = json.load(open(path))
            if dd.get("engine") == "seed":
                failed, sig, msg = run_seed_replay(exe, cfg, dd["seed"], dd["mult"], dd["sub"], tmpbase)
                n_regress += 1
                if failed and not any(k["status"] == "known" and k["signature"] in sig.split("+") for k in known):
                    violations.append((path, msg))
                continue
            if dd.get("flavour") == "asan":
                rexe = os.path.join(build("asan", ["sp_" + cfg["exe"]]), "sp_" + cfg["exe"])
                renv = dict(ASAN_OPTIONS="detect_leaks=0:abort_on_error=1", VERIF_TMP=tmpbase)
        except (ValueError, OSError):
            pass
        st, sig, is_known, out = run_replay(rexe, path, env_extra=renv)
        n_regress += 1
        if st == "fail":
            if is_known:
                for k in known:
                    if k["status"] == "known" and k["signature"] in sig.split("+"):
                        known_lines[k["signature"]] = k["what"]
            else:
                violations.append((path, out.strip().splitlines()[-1] if out.strip() else sig))
        elif st == "error":
            notes.append("replay %s could not be run: %s" % (path, out[-300:]))

    # 2. generated search, `procs` seeds in parallel
    env_base = dict(os.environ, VERIF_MULT=str(mult), VERIF_OUT=work, VERIF_TIER=tier, VERIF_KNOWN=KNOWN_FILE, VERIF_TMP=tmpbase)
    running = []
    for i in range(procs):
        env = dict(env_base, VERIF_SEED=str(seed * 1000 + i), VERIF_TAG="p%d" % i)
        logf = open(os.path.join(work, "p%d.log" % i), "w")
        running.append((i, subprocess.Popen([exe] + cfg.get("args", []), env=env, stdout=logf, stderr=subprocess.STDOUT), logf))
    for i, p, logf in running:
        p.wait()
        logf.close()

    # 3. merge fragments
    subs = {}
    crashed = []
    for i, p, _ in running:
        frag = os.path.join(work, "p%d.frag.json" % i)
        if not os.path.exists(frag):
            crashed.append((i, p.returncode))
            continue
        d = json.load(open(frag))
        for name, s in d["subs"].items():
            m = subs.setdefault(name, dict(rule=s["rule"], evaluations=0, nontrivial=0, discards=0, comparisons=0,
                                           comparisons_nontrivial=0, known_finding_hits=0, classes={}, hashes=set(),
                                           samples=[], status="pass", failures=[], known_by_signature={}))
            for k in ("evaluations", "nontrivial", "discards", "comparisons", "comparisons_nontrivial", "known_finding_hits"):
                m[k] += int(s[k])
            for c, v in s["classes"].items():
                m["classes"][c] = m["classes"].get(c, 0) + int(v)
            for c, v in s.get("known_by_signature", {}).items():
                m["known_by_signature"][c] = m["known_by_signature"].get(c, 0) + int(v)
            m["hashes"].update(s["nt_hashes"])
            for x in s.get("exception_samples", []):
                if len(m.setdefault("exception_samples", [])) < 3:
                    m["exception_samples"].append(x)
            if len(m["samples"]) < 2:
                m["samples"].extend(s["samples"][:1])
            if s["status"] == "fail":
                m["failures"].append((i, s["failure_file"], s.get("failure_message", ""), s.get("failure_signature", "")))
                m["status"] = "fail"
            elif s["status"] in ("gaveup", "error") and m["status"] == "pass":
                m["status"] = s["status"]
                notes.append("%s: %s %s" % (name, s["status"], s.get("failure_message", "")))
    unresolved_crash = False
    for i, rc in crashed:
        # a process that died without writing its fragment: the code under test crashed in-process.
        # The case that was running is in p<i>.current.json; replay it natively, then under valgrind.
        logtxt = open(os.path.join(work, "p%d.log" % i)).read()[-600:]
        cur = os.path.join(work, "p%d.current.json" % i)
        if not os.path.exists(cur):
            notes.append("process p%d ended with status %s before running a case: %s" % (i, rc, logtxt))
            unresolved_crash = True
            continue
        results = [run_replay(exe, cur) for _ in range(3)]
        if all(r[0] == "fail" for r in results):
            dst = save_replay(pid, cur, "crash")
            violations.append((dst, "process crashed (status %s) and the saved case reproduces it: %s" % (rc, results[0][3][-300:])))
            continue
        vg = subprocess.run(["valgrind", "-q", "--error-exitcode=99", exe, "--replay", cur], stdout=subprocess.PIPE, stderr=subprocess.STDOUT, text=True,
                            env=dict(os.environ, VERIF_KNOWN=KNOWN_FILE))
        if vg.returncode == 99 or vg.returncode < 0:
            dst = save_replay(pid, cur, "memory-error")
            violations.append((dst, "process crashed (status %s); valgrind reports a memory error on the saved case: %s" % (rc, vg.stdout[:1200])))
        else:
            notes.append("process p%d crashed with status %s (%s) but the last case does not reproduce it natively or under valgrind" % (i, rc, logtxt))
            unresolved_crash = True

    # 4. confirm failures: replay the shrunk case 3x outside rapidcheck
    for name, m in subs.items():
        seen_sigs = set()
        for i, ff, msg, sig in m["failures"]:
            if sig in seen_sigs or not os.path.exists(ff):
                continue
            seen_sigs.add(sig)
            results = [run_replay(exe, ff) for _ in range(3)]
            if all(r[0] == "fail" for r in results):
                dst = save_replay(pid, ff, name)
                violations.append((dst, msg))
            else:
                # The case alone does not fail: does the process that found it fail again when it is re-run with its seed?
                # Then the failure depends on what the code under test kept from the earlier cases (state surviving between worlds).
                reruns = [run_seed_replay(exe, cfg, seed * 1000 + i, mult, name, tmpbase) for _ in range(2)]
                if all(x[0] and x[1] == sig for x in reruns):
                    dst = save_replay(pid, ff, "history-" + name, extra=dict(engine="seed", seed=seed * 1000 + i, mult=mult, tier=tier))
                    violations.append((dst, "fails only after the cases this process generated before it (the saved case alone passes; re-running the process with seed %d reproduces it twice): %s" % (seed * 1000 + i, msg)))
                else:
                    notes.append("%s: failure did not reproduce 3x from its saved case (%s) nor from its process seed: inconclusive" % (name, [r[0] for r in results]))
        for sig, cnt in m["known_by_signature"].items():
            for k in known:
                if k["status"] == "known" and k["signature"] == sig:
                    known_lines[sig] = k["what"]

    # 4a. sanitizer stage: the same generators and oracles, executable built with ASan+UBSan (flavour asan, target sp_<exe>)
    san_cov = None
    if cfg.get("san"):
        smult, sprocs = cfg["san"][tier]
        sdir = build("asan", ["sp_" + cfg["exe"]])
        sexe = os.path.join(sdir, "sp_" + cfg["exe"])
        swork = os.path.join(work, "san")
        os.makedirs(swork, exist_ok=True)
        senv = dict(env_base, VERIF_MULT=str(smult), VERIF_OUT=swork, ASAN_OPTIONS="detect_leaks=0:abort_on_error=1:symbolize=1:quarantine_size_mb=32:malloc_context_size=4", UBSAN_OPTIONS="print_stacktrace=1")
        t1 = time.time()
        srun = []
        for i in range(min(sprocs, NCPU)):
            env = dict(senv, VERIF_SEED=str(seed * 1000 + 500 + i), VERIF_TAG="s%d" % i)
            logf = open(os.path.join(swork, "s%d.log" % i), "w")
            srun.append((i, subprocess.Popen([sexe] + cfg.get("args", []), env=env, stdout=logf, stderr=subprocess.STDOUT), logf))
        san_seen = set()
        san_cov = dict(flavour="clang ASan+UBSan (-fno-sanitize-recover)", processes=len(srun), evaluations=0, failures=0)
        for i, p, logf in srun:
            p.wait()
            logf.close()
            frag = os.path.join(swork, "s%d.frag.json" % i)
            logtxt = open(os.path.join(swork, "s%d.log" % i), errors="replace").read()
            if not os.path.exists(frag):
                cur = os.path.join(swork, "s%d.current.json" % i)
                # reproduced = the case alone makes the sanitizer executable die again (an ordinary REPLAY-FAIL of that case, e.g. a
                # listed finding, is not a crash; a process killed from outside - status -9, the kernel's out-of-memory killer when
                # many sanitizer processes run beside compilers - does not come back either)
                reps = [run_replay(sexe, cur, env_extra=senv) for _ in range(3)] if os.path.exists(cur) else []
                if reps and all(x[0] == "fail" and x[1].startswith("crash-signal") for x in reps):
                    dst = save_replay(pid, cur, "sanitizer-crash", extra=dict(flavour="asan"))
                    violations.append((dst, "sanitizer build aborted and the saved case reproduces it: " + sanitizer_summary(logtxt + reps[0][3])))
                else:
                    notes.append("sanitizer process s%d ended with status %s without a reproducible case (inconclusive): %s" % (i, p.returncode, logtxt[-300:]))
                continue
            d = json.load(open(frag))
            for name, sm in d["subs"].items():
                san_cov["evaluations"] += int(sm["evaluations"])
                if sm["status"] == "fail" and os.path.exists(sm["failure_file"]):
                    ff = sm["failure_file"]
                    sig = sm.get("failure_signature", "")
                    # a failure the release build shows as well is reported by stage 2; here only what needs the sanitizer
                    rel_fails = run_replay(exe, ff)[0] == "fail"
                    if rel_fails or (name, sig) in san_seen:
                        continue
                    san_seen.add((name, sig))
                    res = [run_replay(sexe, ff, env_extra=senv) for _ in range(3)]
                    if all(x[0] == "fail" for x in res):
                        san_cov["failures"] += 1
                        dst = save_replay(pid, ff, "sanitizer-" + name, extra=dict(flavour="asan"))
                        violations.append((dst, "only under ASan/UBSan: %s %s" % (sm.get("failure_message", sig), sanitizer_summary(res[0][3] + logtxt))))
                    else:
                        notes.append("sanitizer stage: %s failure did not reproduce 3x: inconclusive" % name)
        san_cov["wall_s"] = round(time.time() - t1, 1)

    # 4b. libFuzzer stage (asan flavour) for the properties that have one
    fuzz_cov = None
    if cfg.get("fuzz"):
        import vffuzz
        fv, fk, fuzz_cov, fnotes = vffuzz.run_fuzz(pid, cfg["fuzz"]["targets"], tier, seed, cfg["fuzz"]["want"])
        violations.extend(fv)
        known_lines.update(fk)
        notes.extend(fnotes)

    # 5. report
    total_eval = sum(m["evaluations"] for m in subs.values())
    all_hashes = set()
    for name, m in subs.items():
        all_hashes.update(name + ":" + h for h in m["hashes"])
    coverage = dict(
        evaluations=total_eval,
        distinct_nontrivial=len(all_hashes),
        rule="; ".join("%s: %s" % (n, m["rule"]) for n, m in subs.items()),
        samples=[dict(sub=n, case=s) for n, m in subs.items() for s in m["samples"][:1]],
        comparisons=sum(m["comparisons"] for m in subs.values()),
        comparisons_nontrivial=sum(m["comparisons_nontrivial"] for m in subs.values()),
        discards=sum(m["discards"] for m in subs.values()),
        known_finding_hits=sum(m["known_finding_hits"] for m in subs.values()),
        saved_replays_rerun=n_regress,
        parallel_seeds=procs,
        subchecks={n: dict(status=m["status"], evaluations=m["evaluations"], nontrivial=m["nontrivial"],
                           distinct_nontrivial=len(m["hashes"]), discards=m["discards"], comparisons=m["comparisons"],
                           comparisons_nontrivial=m["comparisons_nontrivial"], known_finding_hits=m["known_finding_hits"],
                           classes=m["classes"]) for n, m in subs.items()},
        notes=notes,
    )
    if san_cov:
        coverage["sanitizer_stage"] = san_cov
    if san_cov:
        coverage["sanitizer_stage"] = san_cov
        coverage["evaluations"] += san_cov["evaluations"]
    if fuzz_cov:
        coverage["fuzz"] = fuzz_cov
        coverage["evaluations"] += sum(fuzz_cov["executions"].values())
    for n, m in subs.items():
        if m["evaluations"] and m["discards"] > 0.25 * m["evaluations"]:
            notes.append("generator health: %s discarded %d of %d cases %s" % (n, m["discards"], m["evaluations"], m.get("exception_samples", [])[:1]))
    inconclusive = bool(crashed) or any(m["status"] in ("gaveup", "error") for m in subs.values()) or any("generator health" in n for n in notes)
    for sig, what in sorted(known_lines.items()):
        print("KNOWN-FINDING: property=%s %s [%s]" % (pid, what, sig))
    for path, msg in violations:
        print("VIOLATION property=%s replay=%s" % (pid, path))
        log("  " + msg[:600])
    for n in notes:
        log("note: " + n[:800])
    write_evidence(pid, tier, seed, coverage, cfg.get("assumptions", []), time.time() - t0, len(violations),
                   dict(inconclusive=inconclusive, known_findings_reported=sorted(known_lines)))
    shutil.rmtree(work, ignore_errors=True)
    shutil.rmtree(tmpbase, ignore_errors=True)
    if unresolved_crash and not violations:
        # an in-process crash of the code under test with no saved case: infrastructure-level error, not a claim
        log("ERROR: harness process crashed; see notes in evidence")
        return 2
    return 1 if violations else 0


# ------------------------------------------------------------------------------------------------
def cmd_check(pid, tier, seed):
    if pid not in PROPS:
        log("unknown or unclaimed property " + pid)
        return 2
    cfg = PROPS[pid]
    if cfg["engine"] == "rc":
        return check_rc(pid, cfg, tier, seed)
    mod = __import__(cfg["module"])
    return mod.check(pid, cfg, tier, seed)


def cmd_replay(path):
    d = json.load(open(path))
    pid = d["property"]
    cfg = PROPS[pid]
    if d.get("engine") == "fuzz":
        import vffuzz
        failed, sig, log = vffuzz.replay_file(pid, path)
        print(("REPLAY-FAIL" if failed else "REPLAY-PASS") + " property=%s target=%s signature=%s" % (pid, d["target"], sig))
        if failed:
            print(log[-1500:])
        return 1 if failed else 0
    if d.get("engine") == "seed":
        bdir = build("rel", [cfg["exe"]])
        extra_builds(cfg)
        tmpbase = "/dev/shm/wbv-%d" % os.getpid() if os.path.isdir("/dev/shm") else os.path.join(WORK, "tmp-%d" % os.getpid())
        os.makedirs(tmpbase, exist_ok=True)
        try:
            failed, sig, msg = run_seed_replay(os.path.join(bdir, cfg["exe"]), cfg, d["seed"], d["mult"], d["sub"], tmpbase)
        finally:
            shutil.rmtree(tmpbase, ignore_errors=True)
        print(("REPLAY-FAIL" if failed else "REPLAY-PASS") + " property=%s sub=%s signature=%s (process re-run with seed %s)" % (pid, d["sub"], sig, d["seed"]))
        if failed:
            print(msg)
        return 1 if failed else 0
    if cfg["engine"] == "rc":
        bdir = build("rel", [cfg["exe"]])
        extra_builds(cfg)
        tmpbase = "/dev/shm/wbv-%d" % os.getpid() if os.path.isdir("/dev/shm") else os.path.join(WORK, "tmp-%d" % os.getpid())
        os.makedirs(tmpbase, exist_ok=True)
        os.environ["VERIF_TMP"] = tmpbase
        rexe, renv = os.path.join(bdir, cfg["exe"]), None
        if d.get("flavour") == "asan":
            rexe = os.path.join(build("asan", ["sp_" + cfg["exe"]]), "sp_" + cfg["exe"])
            renv = dict(ASAN_OPTIONS="detect_leaks=0:abort_on_error=1")
        try:
            st, sig, known, out = run_replay(rexe, os.path.abspath(path), env_extra=renv)
        finally:
            shutil.rmtree(tmpbase, ignore_errors=True)
        print(out.strip())
        return 1 if st == "fail" else (0 if st == "pass" else 2)
    mod = __import__(cfg["module"])
    return mod.replay(pid, cfg, path)


def cmd_setup():
    t0 = time.time()
    build("rel", ["all"])
    for fl in ("asan", "tsan"):
        if glob.glob(os.path.join(VERIF, "engine", "fuzz" if fl == "asan" else "tsan", "*.cc")):
            build(fl, ["all"])
    log("setup done in %.0fs" % (time.time() - t0))
    return 0


def cmd_baseline():
    """Repository's own configuration, guard OFF, full ctest as in BASELINE.json; exit 0 iff every
    test of BASELINE.json's stable_pass list passes."""
    import xml.etree.ElementTree as ET
    bdir = os.path.join(BUILD, "base")
    os.makedirs(bdir, exist_ok=True)
    r = subprocess.run(["cmake", "-G", "Ninja", "-S", REPO, "-B", bdir, "-DCMAKE_BUILD_TYPE=RelWithDebInfo", "-DCMAKE_CXX_FLAGS=-Wno-error",
                        "-DWB_MAKE_FORTRAN_WRAPPER=OFF"], stdout=subprocess.PIPE, stderr=subprocess.STDOUT, text=True)
    if r.returncode:
        log(r.stdout[-3000:]); return 2
    r = subprocess.run(["cmake", "--build", bdir, "-j", str(NCPU)], stdout=subprocess.PIPE, stderr=subprocess.STDOUT, text=True)
    if r.returncode:
        log(r.stdout[-6000:]); return 2
    junit = os.path.join(bdir, "junit.xml")
    if os.path.exists(junit):
        os.unlink(junit)
    subprocess.run(["ctest", "--test-dir", bdir, "-j8", "--timeout", "900", "--output-junit", junit],
                   stdout=subprocess.PIPE, stderr=subprocess.STDOUT, text=True)
    passed = set()
    for tc in ET.parse(junit).getroot().iter("testcase"):
        if tc.get("status") == "run" and tc.find("failure") is None:
            passed.add(tc.get("name"))
    want = set()
    bl = "/root/.vp/BASELINE.json"
    if os.path.exists(bl):
        want = set(n.split("::")[0] for n in json.load(open(bl))["stable_pass"])
    missing = sorted(want - passed)
    print("baseline: %d passed, %d of %d stable tests not passing" % (len(passed), len(missing), len(want)))
    for m in missing:
        print("  NOT PASSING: " + m)
    return 1 if missing or not passed else 0


def main(argv):
    ap = argparse.ArgumentParser(prog="verif")
    sp = ap.add_subparsers(dest="cmd", required=True)
    c = sp.add_parser("check"); c.add_argument("pid"); c.add_argument("--tier", default=os.environ.get("VERIF_TIER", "quick"), choices=["quick", "thorough"])
    r = sp.add_parser("replay"); r.add_argument("path")
    sp.add_parser("setup"); sp.add_parser("baseline")
    a = ap.parse_args(argv)
    seed = int(os.environ.get("VERIF_SEED", "1") or "1")
    if seed == 0:
        seed = 1
    if a.cmd == "check":
        os.environ["VERIF_TIER"] = a.tier
        return cmd_check(a.pid, a.tier, seed)
    if a.cmd == "replay":
        return cmd_replay(a.path)
    if a.cmd == "setup":
        return cmd_setup()
    if a.cmd == "baseline":
        return cmd_baseline()
    return 2
