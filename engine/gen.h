// Structured generators for world files. Everything is drawn from a Chooser, so the same code runs
// under rapidcheck (shrinkable), libFuzzer (coverage guided) and a plain seeded stream.
//
// Domain decisions (DESIGN.md section 3): cartesian frame with model bottom at z=0 and surface at
// z=H, queries satisfy z+depth=H; spherical depth = R-|p|; physical constants positive and finite;
// polygon vertices on a 1 km / 0.25 degree lattice, star-shaped by construction; deterministic models
// only unless a profile asks for random ones.
#pragma once
#include "wb_util.h"

namespace vf
{
  namespace g
  {
    struct Frame
    {
      bool sph = false;
      double R = 6371e3;
      std::string depth_method = "starting point";
      double H = 1000e3; // cartesian: height of the surface above the model bottom
      double unit() const { return sph ? 0.25 : 1000.0; }       // lattice step of surface coordinates (deg | m)
      double km() const { return sph ? (1e3 / R) / DEG : 1e3; }  // one km in surface units (deg at the equator | m)
    };

    // what the generator knows about a feature it made (natural file units: m or degrees)
    struct FM
    {
      std::string type, name, tag;
      std::vector<std::array<double, 2>> coords;
      std::array<double, 2> kernel{{0, 0}}; // a point from which an area polygon is star-shaped
      double dmin = 0, dmax = 0;            // constant depth range (area features, plume); slabs: min depth / reach
      std::array<double, 2> dip_point{{0, 0}};
      double reach = 0;                     // slabs/faults: total length + thickness
      bool line() const { return type == "subducting plate" || type == "fault"; }
      bool area() const { return type == "continental plate" || type == "oceanic plate" || type == "mantle layer"; }
    };

    struct GW
    {
      Frame fr;
      J root;
      std::vector<FM> feats;
    };

    struct Opt
    {
      int min_features = 1, max_features = 5;
      bool allow_spherical = true, allow_cartesian = true;
      bool area = true, plume = true, line = true;
      bool uniform_only = false;       // every model is `uniform` (value known exactly)
      bool operations = false;         // generate add/subtract/replace(/defined only)
      bool model_ranges = false;       // per-model min/max depth ranges
      bool global_constants = false;   // random Tp, alpha, cp, g, surface T
      int cross_section = 0;           // 0 none, 1 maybe, 2 always
      bool force_surface = false;      // may set "force surface temperature"
      bool grains = true, velocity = true;
      bool random_models = false;      // random grains / random composition
      bool overlap = true;             // place features around a common centre so they overlap
      bool curved = true;              // line features may have >2 coordinates
      bool cooling_models = true;      // half-space / plate / mass conserving ... (need ridges)
      bool custom_tags = true;
      bool depth_surfaces = false;     // point-wise min/max depth of area features
      int depth_surface_interior = 3;  // at most this many interior value points per surface
      bool water = false;              // tian water content models
      bool sections = true;            // slabs/faults may carry per-coordinate section overrides
      bool any_gravity_sign = false;   // gravity magnitude may be zero or negative (C03: 'arbitrary gravity magnitude')
      double hub_spread_km = 300;      // features are centred within this distance of a common hub
      bool top_truncation = true;      // slabs may have a top truncation
      bool line_model_ranges = true;   // per-model distance ranges on slab/fault models
    };

    inline const std::string &default_tag(const std::string &type) { return type; }

    inline Frame gen_frame(Chooser &ch, const Opt &o)
    {
      Frame f;
      f.sph = o.allow_spherical && (!o.allow_cartesian || ch.chance(40));
      if (f.sph)
        {
          f.R = ch.pick<double>({6371e3, 3390e3, 1737e3, 6371e3});
          f.depth_method = ch.pick<std::string>({"starting point", "begin segment", "begin at end segment"});
        }
      else f.H = ch.lattice(500e3, 3000e3, 100e3);
      return f;
    }

    inline void frame_to_json(const Frame &f, J &root)
    {
      root["version"] = "1.1";
      if (f.sph)
        {
          J cs = J::obj();
          cs["model"] = "spherical";
          cs["depth method"] = f.depth_method;
          cs["radius"] = f.R;
          root["coordinate system"] = cs;
        }
      else
        {
          J cs = J::obj();
          cs["model"] = "cartesian";
          root["coordinate system"] = cs;
        }
    }

    // point of the world's surface region, on the lattice
    inline std::array<double, 2> gen_centre(Chooser &ch, const Frame &f)
    {
      if (f.sph)
        {
          // a forced share sits next to the +-180 meridian
          const double lon = ch.chance(25) ? ch.pick<double>({180.0, -180.0, 175.0, -176.0}) : ch.lattice(-150, 150, 0.25);
          return {{lon, ch.lattice(-55, 55, 0.25)}};
        }
      return {{ch.lattice(-1500e3, 1500e3, 1e3), ch.lattice(-1500e3, 1500e3, 1e3)}};
    }

    // star-shaped lattice polygon around c; radius in surface units
    inline std::vector<std::array<double, 2>> star_polygon(Chooser &ch, const Frame &f, std::array<double, 2> c, double rmin, double rmax, int k = 0)
    {
      if (k == 0) k = static_cast<int>(ch.range(3, 9));
      const double step = f.unit();
      std::vector<std::array<double, 2>> v;
      const double phase = ch.real(0, 2 * PI);
      const double jit = k == 3 ? 0.35 : 0.7;
      for (int i = 0; i < k; ++i)
        {
          const double th = phase + 2 * PI * (i + ch.real(0, jit)) / k;
          const double r = ch.real(rmin, rmax);
          std::array<double, 2> p{{std::round((c[0] + r * std::cos(th)) / step) * step, std::round((c[1] + r * std::sin(th)) / step) * step}};
          if (f.sph) p[1] = std::max(-88.0, std::min(88.0, p[1]));
          if (!v.empty() && v.back() == p) continue;
          v.push_back(p);
        }
      if (v.size() >= 2 && v.front() == v.back()) v.pop_back();
      if (v.size() < 3)
        {
          // degenerate draw: fall back to a lattice triangle around c
          v = {{{c[0] - 8 * step, c[1] - 8 * step}}, {{c[0] + 8 * step, c[1] - 6 * step}}, {{c[0], c[1] + 8 * step}}};
        }
      if (ch.flip()) std::reverse(v.begin(), v.end());
      return v;
    }

    inline J coords_json(const std::vector<std::array<double, 2>> &v)
    {
      J a = J::arr();
      for (auto &p : v) a.push(jp(p[0], p[1]));
      return a;
    }

    // ---------------------------------------------------------------- models
    inline std::string range_lo(const std::string &type) { return type == "subducting plate" ? "min distance slab top" : (type == "fault" ? "min distance fault center" : "min depth"); }
    inline std::string range_hi(const std::string &type) { return type == "subducting plate" ? "max distance slab top" : (type == "fault" ? "max distance fault center" : "max depth"); }

    inline void maybe_range(Chooser &ch, const Opt &o, const FM &m, J &model)
    {
      if (!o.model_ranges || !ch.chance(40)) return;
      if (m.line() && !o.line_model_ranges) return;
      if (m.line())
        {
          // distance from the slab top / fault centre
          const double lo = m.type == "fault" ? 0 : ch.pick<double>({0, -20e3, 10e3});
          const double hi = lo + ch.lattice(10e3, 120e3, 5e3);
          if (ch.flip()) model[range_lo(m.type)] = lo;
          model[range_hi(m.type)] = hi;
        }
      else
        {
          const double span = std::max(10e3, m.dmax - m.dmin);
          const double lo = m.dmin + std::floor(ch.real(0, 0.6) * span / 1e3) * 1e3;
          const double hi = lo + std::floor(ch.real(0.1, 0.8) * span / 1e3 + 1) * 1e3;
          if (ch.flip()) model[range_lo(m.type)] = lo;
          if (ch.flip() || !model.has(range_lo(m.type))) model[range_hi(m.type)] = hi;
        }
    }

    inline J ridge_json(Chooser &ch, const Frame &f, const FM &m, int *npoints = nullptr)
    {
      // one ridge of 2..3 points placed beside the feature; oblique in a good share of the cases
      J ridges = J::arr();
      J r = J::arr();
      const double d = f.sph ? 10.0 : 800e3;
      // beside the feature, or (25%) straight through it: points of the feature then sit exactly on the ridge (age zero)
      const double x0 = ch.chance(25) ? m.kernel[0] : m.kernel[0] + (ch.flip() ? -d : d);
      const int n = static_cast<int>(ch.range(2, 3));
      const double slant = ch.chance(50) ? (f.sph ? ch.lattice(-6, 6, 0.25) : ch.lattice(-500e3, 500e3, 1e3)) : 0.0;
      for (int i = 0; i < n; ++i)
        {
          const double t = i - (n - 1) / 2.0;
          r.push(jp(x0 + t * slant + (f.sph ? ch.lattice(-2, 2, 0.25) : ch.lattice(-100e3, 100e3, 1e3)), m.kernel[1] + t * (f.sph ? 20.0 : 1500e3)));
        }
      ridges.push(r);
      if (npoints) *npoints = n;
      return ridges;
    }

    // constant, or one value per ridge point
    inline J spreading_json(Chooser &ch, int npoints)
    {
      if (ch.chance(60)) return J(ch.real(0.01, 0.15));
      J vals = J::arr();
      for (int i = 0; i < npoints; ++i) vals.push(J(ch.real(0.01, 0.15)));
      return J::arr({J::arr({J(0.0), J::arr({vals})})});
    }

    inline J euler_or_matrix(Chooser &ch, J &model, const char *prefix_euler, const char *prefix_mat, size_t n)
    {
      (void)prefix_mat;
      J l = J::arr();
      for (size_t i = 0; i < n; ++i) l.push(jp(ch.lattice(0, 360, 15), ch.lattice(0, 180, 15), ch.lattice(0, 360, 15)));
      model[prefix_euler] = l;
      return l;
    }

    inline J gen_temperature_models(Chooser &ch, const Frame &f, const Opt &o, const FM &m)
    {
      J a = J::arr();
      const int n = static_cast<int>(ch.range(0, o.uniform_only ? 3 : 2));
      for (int i = 0; i < n; ++i)
        {
          J t = J::obj();
          std::vector<std::string> kinds = {"uniform"};
          if (!o.uniform_only)
            {
              if (m.type != "plume") { kinds.push_back("adiabatic"); kinds.push_back("linear"); }
              if (m.type == "continental plate") kinds.push_back("chapman");
              if (m.type == "plume") kinds.push_back("gaussian");
              if (o.cooling_models && m.type == "oceanic plate") { kinds.push_back("half space model"); kinds.push_back("plate model"); kinds.push_back("plate model constant age"); }
              if (o.cooling_models && m.type == "subducting plate") { kinds.push_back("plate model"); kinds.push_back("mass conserving"); }
            }
          const std::string kind = ch.pick(kinds);
          t["model"] = kind;
          if (kind == "uniform") t["temperature"] = ch.lattice(200, 2000, 25);
          else if (kind == "adiabatic") { if (ch.flip()) t["potential mantle temperature"] = ch.lattice(1200, 1800, 50); }
          else if (kind == "linear")
            {
              if (m.type == "fault") { t["max distance fault center"] = ch.lattice(20e3, 200e3, 10e3); t["center temperature"] = ch.lattice(300, 1500, 50); t["side temperature"] = ch.lattice(300, 1500, 50); }
              else if (m.type == "subducting plate") { t["max distance slab top"] = ch.lattice(20e3, 200e3, 10e3); t["top temperature"] = ch.lattice(300, 900, 50); t["bottom temperature"] = ch.lattice(900, 1700, 50); }
              else { t["max depth"] = m.dmax; t["top temperature"] = ch.lattice(273, 900, 25); t["bottom temperature"] = ch.chance(30) ? -1.0 : ch.lattice(900, 1700, 50); }
            }
          else if (kind == "chapman") { t["top temperature"] = ch.lattice(273, 400, 10); t["top heat flux"] = ch.real(0.03, 0.08); }
          else if (kind == "gaussian")
            {
              t["centerline temperatures"] = J::arr({J(ch.lattice(1700, 2200, 50))});
              t["depths"] = J::arr({J(m.dmin)});
              t["gaussian sigmas"] = J::arr({J(ch.real(0.2, 0.6))});
            }
          else if (kind == "half space model" || (kind == "plate model" && m.type == "oceanic plate"))
            {
              t["max depth"] = m.dmax;
              int nrp = 2;
              t["ridge coordinates"] = ridge_json(ch, f, m, &nrp);
              t["spreading velocity"] = spreading_json(ch, nrp);
              t["top temperature"] = ch.lattice(273, 300, 1);
              if (ch.flip()) t["bottom temperature"] = ch.lattice(1400, 1800, 50);
            }
          else if (kind == "plate model constant age") { t["max depth"] = m.dmax; t["plate age"] = ch.logreal(1e6, 2e8); }
          else if (kind == "plate model") { t["plate velocity"] = ch.real(0.01, 0.15); t["max distance slab top"] = ch.lattice(50e3, 200e3, 10e3); }
          else if (kind == "mass conserving")
            {
              int nrp = 2;
              t["ridge coordinates"] = ridge_json(ch, f, m, &nrp);
              t["spreading velocity"] = spreading_json(ch, nrp);
              t["subducting velocity"] = ch.real(0.02, 0.1);
              t["coupling depth"] = ch.lattice(50e3, 120e3, 10e3);
              t["min distance slab top"] = -ch.lattice(50e3, 200e3, 10e3);
              t["max distance slab top"] = ch.lattice(100e3, 200e3, 10e3);
              t["reference model name"] = ch.pick<std::string>({"half space model", "plate model"});
              if (ch.flip()) { t["apply spline"] = true; t["number of points in spline"] = static_cast<int>(ch.range(3, 8)); }
            }
          if (o.operations && kind != "gaussian" && kind != "mass conserving" && kind != "plate model" && kind != "half space model" && kind != "plate model constant age")
            if (ch.chance(60)) t["operation"] = ch.pick<std::string>({"replace", "add", "subtract"});
          if (kind == "uniform" || kind == "adiabatic") maybe_range(ch, o, m, t);
          a.push(t);
        }
      return a;
    }

    inline J gen_composition_models(Chooser &ch, const Frame &, const Opt &o, const FM &m)
    {
      J a = J::arr();
      const int n = static_cast<int>(ch.range(0, 2));
      for (int i = 0; i < n; ++i)
        {
          J c = J::obj();
          std::string kind = "uniform";
          if (!o.uniform_only && (m.type == "subducting plate" || m.type == "fault") && ch.chance(25)) kind = "smooth";
          if (o.random_models && m.area() && m.type != "mantle layer" && m.type != "oceanic plate" && ch.chance(40)) kind = "random";
          if (o.water && (m.type == "oceanic plate" || m.type == "subducting plate") && ch.chance(30)) kind = "tian water content";
          c["model"] = kind;
          const int nc = static_cast<int>(ch.range(1, 3));
          std::vector<int> ids;
          J comps = J::arr(), fr = J::arr(), fr2 = J::arr();
          for (int k = 0; k < nc; ++k)
            {
              int id = static_cast<int>(ch.range(0, 5));
              while (std::find(ids.begin(), ids.end(), id) != ids.end()) id = (id + 1) % 6;
              ids.push_back(id);
              comps.push(J(id));
              fr.push(J(ch.lattice(0, 1, 0.125)));
              fr2.push(J(ch.lattice(0, 1, 0.125)));
            }
          c["compositions"] = comps;
          if (kind == "uniform") { if (nc > 1 || ch.chance(70)) c["fractions"] = fr; }
          else if (kind == "smooth")
            {
              if (m.type == "fault") { c["center fractions"] = fr; c["side fractions"] = fr2; c["side distance fault center"] = ch.lattice(20e3, 100e3, 10e3); }
              else { c["top fractions"] = fr; c["bottom fractions"] = fr2; c["max distance slab top"] = ch.lattice(20e3, 100e3, 10e3); }
            }
          else if (kind == "tian water content")
            {
              c["compositions"] = J::arr({comps[0]});
              c["lithology"] = ch.pick<std::string>({"peridotite", "gabbro", "MORB", "sediment"});
              c["initial water content"] = ch.lattice(0.5, 5, 0.5);
              c["cutoff pressure"] = ch.lattice(1, 26, 1);
            }
          else if (kind == "random")
            {
              J lo = J::arr(), hi = J::arr();
              for (int k = 0; k < nc; ++k) { const double l = ch.lattice(0, 4, 0.25); lo.push(J(l)); hi.push(J(l + ch.lattice(0.25, 2, 0.25))); }
              c["min value"] = lo; c["max value"] = hi;
            }
          if (o.operations && ch.chance(60)) c["operation"] = ch.pick<std::string>({"replace", "replace defined only", "add", "subtract"});
          if (kind == "uniform") maybe_range(ch, o, m, c);
          a.push(c);
        }
      return a;
    }

    inline J gen_grains_models(Chooser &ch, const Frame &, const Opt &o, const FM &m)
    {
      J a = J::arr();
      if (!o.grains || !ch.chance(45)) return a;
      J gm = J::obj();
      std::string kind = "uniform";
      if (o.random_models && ch.chance(70)) kind = (m.type == "plume" || ch.flip()) ? "random uniform distribution deflected" : "random uniform distribution";
      gm["model"] = kind;
      const int nc = static_cast<int>(ch.range(1, 2));
      J comps = J::arr(), sizes = J::arr();
      for (int k = 0; k < nc; ++k) { comps.push(J(k == 0 ? static_cast<int>(ch.range(0, 1)) : 2)); sizes.push(J(ch.chance(40) ? -1.0 : ch.lattice(0.125, 2, 0.125))); }
      gm["compositions"] = comps;
      if (kind == "uniform") euler_or_matrix(ch, gm, "Euler angles z-x-z", "rotation matrices", static_cast<size_t>(nc));
      if (kind == "random uniform distribution deflected")
        {
          euler_or_matrix(ch, gm, "basis Euler angles z-x-z", "basis rotation matrices", static_cast<size_t>(nc));
          J d = J::arr();
          for (int k = 0; k < nc; ++k) d.push(J(ch.lattice(0, 1, 0.125)));
          gm["deflections"] = d;
        }
      gm["grain sizes"] = sizes;
      if (kind != "uniform") { J nz = J::arr(); for (int k = 0; k < nc; ++k) nz.push(J(ch.flip())); gm["normalize grain sizes"] = nz; }
      a.push(gm);
      return a;
    }

    inline J gen_velocity_models(Chooser &ch, const Frame &, const Opt &o, const FM &)
    {
      J a = J::arr();
      if (!o.velocity || !ch.chance(40)) return a;
      J v = J::obj();
      v["model"] = "uniform raw";
      v["velocity"] = jp(ch.lattice(-0.1, 0.1, 0.0125), ch.lattice(-0.1, 0.1, 0.0125), ch.lattice(-0.1, 0.1, 0.0125));
      if (o.operations && ch.chance(30)) v["operation"] = ch.pick<std::string>({"replace", "add", "subtract"});
      a.push(v);
      return a;
    }

    inline void add_models(Chooser &ch, const Frame &f, const Opt &o, const FM &m, J &feat)
    {
      J t = gen_temperature_models(ch, f, o, m), c = gen_composition_models(ch, f, o, m), g = gen_grains_models(ch, f, o, m), v = gen_velocity_models(ch, f, o, m);
      if (t.size()) feat["temperature models"] = t;
      if (c.size()) feat["composition models"] = c;
      if (g.size()) feat["grains models"] = g;
      if (v.size()) feat["velocity models"] = v;
    }

    // ---------------------------------------------------------------- features
    inline void name_and_tag(Chooser &ch, const Opt &o, size_t idx, FM &m, J &feat)
    {
      m.name = "f" + std::to_string(idx);
      feat["name"] = m.name;
      m.tag = m.type;
      if (o.custom_tags && ch.chance(35)) { m.tag = ch.pick<std::string>({"alpha", "beta", "gamma", "continental plate"}); feat["tag"] = m.tag; }
    }

    inline J area_feature(Chooser &ch, const Frame &f, const Opt &o, const std::string &type, std::array<double, 2> c, size_t idx, FM &m)
    {
      m.type = type;
      m.kernel = c;
      const double km = f.km();
      (void)km;
      m.coords = star_polygon(ch, f, c, f.sph ? 2.0 : 150e3, f.sph ? 12.0 : 900e3);
      J feat = J::obj();
      feat["model"] = type;
      name_and_tag(ch, o, idx, m, feat);
      feat["coordinates"] = coords_json(m.coords);
      if (type == "mantle layer") { m.dmin = ch.lattice(0, 300e3, 10e3); m.dmax = m.dmin + ch.lattice(50e3, 500e3, 10e3); }
      else { m.dmin = ch.chance(70) ? 0 : ch.lattice(0, 50e3, 5e3); m.dmax = m.dmin + ch.lattice(30e3, 300e3, 5e3); }
      if (m.dmin != 0 || ch.flip()) feat["min depth"] = m.dmin;
      feat["max depth"] = m.dmax;
      if (o.depth_surfaces && ch.chance(40))
        {
          // max depth given at points: the bare value for every corner, then values at some corners (sometimes pinching
          // out to the min depth) and at interior points; corners with a zero coordinate are left alone (listed finding C11)
          J surf = J::arr();
          surf.push(J::arr({J(m.dmax)}));
          for (size_t i = 0; i < m.coords.size(); ++i)
            if (ch.chance(30) && m.coords[i][0] != 0 && m.coords[i][1] != 0)
              surf.push(J::arr({J(ch.chance(40) ? m.dmin : m.dmin + ch.lattice(0.1, 1.0, 0.1) * (m.dmax - m.dmin)), J::arr({jp(m.coords[i][0], m.coords[i][1])})}));
          const int ni = static_cast<int>(ch.range(0, o.depth_surface_interior));
          for (int i = 0; i < ni; ++i)
            {
              const size_t e = ch.index(m.coords.size());
              const auto &v0 = m.coords[e], &v1 = m.coords[(e + 1) % m.coords.size()];
              const double s = ch.real(0.1, 0.9), t = ch.real(0.1, 0.8);
              surf.push(J::arr({J(m.dmin + ch.lattice(0.1, 1.0, 0.1) * (m.dmax - m.dmin)), J::arr({jp(c[0] + t * (v0[0] + s * (v1[0] - v0[0]) - c[0]), c[1] + t * (v0[1] + s * (v1[1] - v0[1]) - c[1]))})}));
            }
          if (surf.size() > 1) feat["max depth"] = surf;
        }
      add_models(ch, f, o, m, feat);
      return feat;
    }

    inline J plume_feature(Chooser &ch, const Frame &f, const Opt &o, std::array<double, 2> c, size_t idx, FM &m)
    {
      m.type = "plume";
      m.kernel = c;
      J feat = J::obj();
      feat["model"] = "plume";
      name_and_tag(ch, o, idx, m, feat);
      const int n = static_cast<int>(ch.range(1, 4));
      J coords = J::arr(), depths = J::arr(), axes = J::arr(), ecc = J::arr(), rot = J::arr();
      double d = ch.lattice(50e3, 300e3, 10e3);
      const double km = f.km();
      for (int i = 0; i < n; ++i)
        {
          std::array<double, 2> p{{c[0] + ch.real(-50, 50) * km, c[1] + ch.real(-50, 50) * km}};
          m.coords.push_back(p);
          coords.push(jp(p[0], p[1]));
          depths.push(J(d));
          d += ch.lattice(50e3, 400e3, 10e3);
          axes.push(J(ch.real(50, 300) * km));
          ecc.push(J(ch.lattice(0, 0.875, 0.125)));
          {
            // neighbouring orientations exactly 180 degrees apart have no "shortest way round": avoided
            double rv = ch.lattice(0, 345, 15);
            if (rot.size() > 0 && std::fabs(std::fabs(rv - rot[rot.size() - 1].num()) - 180.0) < 1e-9) rv = std::fmod(rv + 15.0, 360.0);
            rot.push(J(rv));
          }
        }
      feat["coordinates"] = coords;
      feat["cross section depths"] = depths;
      feat["semi-major axis"] = axes;
      feat["eccentricity"] = ecc;
      feat["rotation angles"] = rot;
      m.dmin = depths[0].num() - (ch.flip() ? ch.lattice(10e3, 40e3, 10e3) : 0);
      m.dmax = depths[depths.size() - 1].num() + ch.lattice(0, 500e3, 50e3);
      feat["min depth"] = m.dmin;
      feat["max depth"] = m.dmax;
      add_models(ch, f, o, m, feat);
      return feat;
    }

    // trench polyline with bends <= 60 degrees, lattice coordinates
    inline std::vector<std::array<double, 2>> trench(Chooser &ch, const Frame &f, std::array<double, 2> c, int n, double bend_deg = 50)
    {
      std::vector<std::array<double, 2>> v;
      const double step = f.unit(), km = f.km();
      double heading = ch.real(-PI, PI);
      double x = c[0], y = c[1];
      v.push_back({{std::round(x / step) * step, std::round(y / step) * step}});
      for (int i = 1; i < n; ++i)
        {
          if (i > 1) heading += ch.real(-bend_deg, bend_deg) * DEG;
          const double len = ch.real(150, 700) * km;
          x += len * std::cos(heading);
          y += len * std::sin(heading);
          if (f.sph) y = std::max(-80.0, std::min(80.0, y));
          std::array<double, 2> p{{std::round(x / step) * step, std::round(y / step) * step}};
          if (p == v.back()) p[0] += 20 * step;
          v.push_back(p);
        }
      return v;
    }

    inline J segments_json(Chooser &ch, const std::string &type, double &total_len, double &max_thick, int nseg = 0, bool top_truncation = true)
    {
      J segs = J::arr();
      if (nseg == 0) nseg = static_cast<int>(ch.range(1, 3));
      double a_prev = ch.lattice(15, 75, 5);
      total_len = 0;
      max_thick = 0;
      for (int i = 0; i < nseg; ++i)
        {
          J s = J::obj();
          const double len = ch.lattice(100e3, 500e3, 25e3);
          s["length"] = len;
          total_len += len;
          const double t1 = ch.lattice(40e3, 150e3, 10e3), t2 = ch.chance(30) ? ch.lattice(40e3, 150e3, 10e3) : t1;
          s["thickness"] = t1 == t2 && ch.flip() ? J::arr({J(t1)}) : J::arr({J(t1), J(t2)});
          max_thick = std::max(max_thick, std::max(t1, t2));
          const double a2 = ch.chance(50) ? a_prev : ch.lattice(15, 80, 5);
          s["angle"] = (a_prev == a2 && ch.flip()) ? J::arr({J(a_prev)}) : J::arr({J(a_prev), J(a2)});
          a_prev = a2;
          if (top_truncation && type == "subducting plate" && ch.chance(25)) { const double tt = ch.lattice(-20e3, 20e3, 5e3); s["top truncation"] = J::arr({J(tt)}); }
          segs.push(s);
        }
      return segs;
    }

    inline J line_feature(Chooser &ch, const Frame &f, const Opt &o, const std::string &type, std::array<double, 2> c, size_t idx, FM &m)
    {
      m.type = type;
      m.kernel = c;
      const int n = o.curved ? static_cast<int>(ch.range(2, 4)) : 2;
      m.coords = trench(ch, f, c, n);
      J feat = J::obj();
      feat["model"] = type;
      name_and_tag(ch, o, idx, m, feat);
      feat["coordinates"] = coords_json(m.coords);
      // dip point: far to one side of the first chord
      const double dx = m.coords[1][0] - m.coords[0][0], dy = m.coords[1][1] - m.coords[0][1];
      const double dn = std::sqrt(dx * dx + dy * dy);
      const double side = ch.flip() ? 1 : -1;
      const double far = f.sph ? 40.0 : 5e6;
      m.dip_point = {{m.coords[0][0] - side * dy / dn * far, m.coords[0][1] + side * dx / dn * far}};
      if (f.sph) { m.dip_point[1] = std::max(-85.0, std::min(85.0, m.dip_point[1])); }
      feat["dip point"] = jp(m.dip_point[0], m.dip_point[1]);
      m.dmin = ch.chance(75) ? 0 : ch.lattice(10e3, 200e3, 10e3);
      if (m.dmin != 0) feat["min depth"] = m.dmin;
      double tl = 0, mt = 0;
      feat["segments"] = segments_json(ch, type, tl, mt, 0, o.top_truncation);
      // sections: per-coordinate overrides of the segment table (same number of segments)
      if (o.sections && ch.chance(35))
        {
          J secs = J::arr();
          const size_t nseg = feat["segments"].size();
          for (size_t i = 0; i < m.coords.size(); ++i)
            if (ch.chance(45))
              {
                J s = J::obj();
                s["coordinate"] = static_cast<int>(i);
                double tl2 = 0, mt2 = 0;
                s["segments"] = segments_json(ch, type, tl2, mt2, static_cast<int>(nseg), o.top_truncation);
                tl = std::max(tl, tl2); mt = std::max(mt, mt2);
                secs.push(s);
              }
          if (secs.size()) feat["sections"] = secs;
        }
      m.reach = tl + mt;
      m.dmax = m.dmin + m.reach;
      add_models(ch, f, o, m, feat);
      return feat;
    }

    // ---------------------------------------------------------------- world
    inline GW gen_world(Chooser &ch, const Opt &o)
    {
      GW w;
      w.fr = gen_frame(ch, o);
      frame_to_json(w.fr, w.root);
      if (o.global_constants)
        {
          if (ch.chance(70)) w.root["potential mantle temperature"] = ch.lattice(1200, 2000, 25);
          if (ch.chance(70)) w.root["thermal expansion coefficient"] = ch.real(1e-5, 6e-5);
          if (ch.chance(70)) w.root["specific heat"] = ch.lattice(800, 1500, 50);
          if (ch.chance(70)) { J g = J::obj(); g["model"] = "uniform"; g["magnitude"] = o.any_gravity_sign && ch.chance(30) ? ch.lattice(-20, 0, 0.5) : ch.lattice(1, 20, 0.5); w.root["gravity model"] = g; }
          if (ch.chance(50)) w.root["surface temperature"] = ch.lattice(200, 400, 10);
          if (ch.chance(40)) w.root["thermal diffusivity"] = ch.real(0.5e-6, 1.5e-6);
        }
      if (o.force_surface && ch.chance(50)) w.root["force surface temperature"] = true;
      const int n = static_cast<int>(ch.range(o.min_features, o.max_features));
      const std::array<double, 2> hub = gen_centre(ch, w.fr);
      J feats = J::arr();
      std::vector<std::string> kinds;
      if (o.area) { kinds.push_back("continental plate"); kinds.push_back("oceanic plate"); kinds.push_back("mantle layer"); }
      if (o.plume) kinds.push_back("plume");
      if (o.line) { kinds.push_back("subducting plate"); kinds.push_back("fault"); }
      for (int i = 0; i < n; ++i)
        {
          FM m;
          std::array<double, 2> c = hub;
          const double km = w.fr.km();
          if (o.overlap && ch.chance(85)) { c[0] += std::round(ch.real(-o.hub_spread_km, o.hub_spread_km)) * km; c[1] += std::round(ch.real(-o.hub_spread_km, o.hub_spread_km)) * km; }
          else c = gen_centre(ch, w.fr);
          if (w.fr.sph) { c[0] = std::round(c[0] * 4) / 4; c[1] = std::max(-60.0, std::min(60.0, std::round(c[1] * 4) / 4)); }
          else { c[0] = std::round(c[0] / 1e3) * 1e3; c[1] = std::round(c[1] / 1e3) * 1e3; }
          const std::string kind = ch.pick(kinds);
          J fj;
          if (kind == "plume") fj = plume_feature(ch, w.fr, o, c, feats.size(), m);
          else if (kind == "subducting plate" || kind == "fault") fj = line_feature(ch, w.fr, o, kind, c, feats.size(), m);
          else fj = area_feature(ch, w.fr, o, kind, c, feats.size(), m);
          feats.push(fj);
          w.feats.push_back(m);
        }
      w.root["features"] = feats;
      if (o.cross_section == 2 || (o.cross_section == 1 && ch.flip()))
        {
          const double km = w.fr.km();
          std::array<double, 2> a{{hub[0] + std::round(ch.real(-400, 400)) * km, hub[1] + std::round(ch.real(-400, 400)) * km}};
          double ang = ch.real(-PI, PI);
          std::array<double, 2> b{{a[0] + std::cos(ang) * 500 * km, a[1] + std::sin(ang) * 500 * km}};
          if (w.fr.sph) { a[1] = std::max(-70.0, std::min(70.0, a[1])); b[1] = std::max(-75.0, std::min(75.0, b[1])); }
          w.root["cross section"] = J::arr({jp(a[0], a[1]), jp(b[0], b[1])});
        }
      return w;
    }

    // ---------------------------------------------------------------- queries
    // cartesian point + depth of a surface position (file units) and a depth
    inline J make_query(const Frame &f, double a, double b, double depth)
    {
      J q = J::obj();
      if (f.sph)
        {
          const auto p = sph2cart(f.R - depth, a * DEG, b * DEG);
          q["p"] = jp(p[0], p[1], p[2]);
        }
      else q["p"] = jp(a, b, f.H - depth);
      q["depth"] = depth;
      q["nat"] = jp(a, b);
      return q;
    }

    // a query aimed at feature m (inside by construction for area features and plumes; near the
    // slab surface for line features), or anywhere in the region when m is null
    inline J gen_query(Chooser &ch, const GW &w, const FM *m)
    {
      const Frame &f = w.fr;
      const double km = f.km();
      if (!m)
        {
          std::array<double, 2> c = w.feats.empty() ? std::array<double, 2>{{0, 0}} : w.feats[ch.index(w.feats.size())].kernel;
          const double spread = ch.flip() ? 300 : 1500;
          const double a = c[0] + ch.real(-spread, spread) * km, b = c[1] + ch.real(-spread, spread) * km;
          return make_query(f, f.sph ? std::max(-359.0, std::min(359.0, a)) : a, f.sph ? std::max(-89.0, std::min(89.0, b)) : b, ch.chance(15) ? 0.0 : ch.real(0, 700e3));
        }
      if (m->area())
        {
          const size_t i = ch.index(m->coords.size());
          const auto &v0 = m->coords[i], &v1 = m->coords[(i + 1) % m->coords.size()];
          const double s = ch.real(0, 1), t = ch.chance(10) ? ch.pick<double>({0.0, 0.5}) : ch.real(0, 0.98);
          const double ex = v0[0] + s * (v1[0] - v0[0]), ey = v0[1] + s * (v1[1] - v0[1]);
          const double depth = ch.chance(20) ? ch.pick<double>({m->dmin, m->dmax, 0.5 * (m->dmin + m->dmax)}) : ch.real(m->dmin, m->dmax);
          return make_query(f, m->kernel[0] + t * (ex - m->kernel[0]), m->kernel[1] + t * (ey - m->kernel[1]), depth);
        }
      if (m->type == "plume")
        {
          const double depth = ch.real(m->dmin, std::min(m->dmax, m->dmin + 900e3));
          const auto &c0 = m->coords[ch.index(m->coords.size())];
          return make_query(f, c0[0] + ch.real(-40, 40) * km, c0[1] + ch.real(-40, 40) * km, depth);
        }
      // line feature: a point at along-trench position s, horizontal offset towards the dip point, some depth
      const size_t i = ch.index(m->coords.size() - 1);
      const auto &v0 = m->coords[i], &v1 = m->coords[i + 1];
      const double s = ch.real(0.02, 0.98);
      const double tx = v1[0] - v0[0], ty = v1[1] - v0[1];
      const double tn = std::sqrt(tx * tx + ty * ty);
      double nx = -ty / tn, ny = tx / tn;
      const double px = v0[0] + s * tx, py = v0[1] + s * ty;
      if ((m->dip_point[0] - px) * nx + (m->dip_point[1] - py) * ny < 0) { nx = -nx; ny = -ny; }
      const double reach_h = (m->reach / 1e3) * km;
      const double off = m->type == "fault" ? ch.real(-0.3, 0.6) * reach_h : ch.real(-0.05, 0.8) * reach_h;
      const double depth = m->dmin + ch.real(0, 0.8) * m->reach;
      double a = px + off * nx, b = py + off * ny;
      if (f.sph) b = std::max(-89.0, std::min(89.0, b));
      return make_query(f, a, b, depth);
    }

    inline J gen_queries(Chooser &ch, const GW &w, int n, int pct_aimed = 70)
    {
      J qs = J::arr();
      for (int i = 0; i < n; ++i)
        {
          const FM *m = (!w.feats.empty() && ch.chance(pct_aimed)) ? &w.feats[ch.index(w.feats.size())] : nullptr;
          qs.push(gen_query(ch, w, m));
        }
      return qs;
    }

    // ---------------------------------------------------------------- property lists
    inline J gen_props(Chooser &ch, int max_len = 8, bool grains = true, bool velocity = true)
    {
      J l = J::arr();
      const int n = static_cast<int>(ch.range(1, max_len));
      for (int i = 0; i < n; ++i)
        {
          std::vector<int> kinds = {1, 2, 2, 4};
          if (grains) kinds.push_back(3);
          if (velocity) kinds.push_back(5);
          const int k = ch.pick(kinds);
          if (k == 2) l.push(J::arr({J(2), J(static_cast<int>(ch.range(0, 5))), J(0)}));
          else if (k == 3) l.push(J::arr({J(3), J(static_cast<int>(ch.range(0, 2))), J(static_cast<int>(ch.range(0, 4)))}));
          else l.push(J::arr({J(k), J(0), J(0)}));
        }
      return l;
    }
  } // namespace g
} // namespace vf
