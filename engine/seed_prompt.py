import json,sys
pid=sys.argv[1]
LA,LB=(sys.argv[2],sys.argv[3]) if len(sys.argv)>3 else ('A','B')
HINT='' if LA=='A' else ' Earlier rounds of this exercise have already used the most obvious sites for this property, so skip the first idea that comes to mind and look for less obvious mechanisms (other files, other options, other entry points, interactions between two features or two calls).'
for l in open('/verif/properties.jsonl'):
    p=json.loads(l)
    if p['id']==pid: break
wt="/tmp/wt-%s"%pid
print(f"""You are helping to evaluate a test-suite's blind spots for the open-source C++ library "Geodynamic World Builder" (computes temperature/composition/grain fields for tectonic features from a JSON .wb file; tools gwb-dat and gwb-grid).

You have your own scratch git worktree of the repository at {wt} . Work ONLY inside {wt} and /tmp/seeded-out/{pid}/ (create it). Do not read or write anything under /verif or /repo, and do not use the network (there is none).

THE PROPERTY (this is all you are given about what must hold):

Title: {p['title']}
Statement: {p['statement']}
Quantified over: {p['quantifier']['text']}
Source files it is anchored in: {', '.join(p['anchors']['files'])}

YOUR TASK: produce TWO independent, realistic source changes (call them {LA} and {LB}, touching different mechanisms / code sites) to the library or its tools, each of which BREAKS this property while (1) still compiling and (2) still passing the repository's existing test-suite. Think of the kind of regression a maintainer could introduce by accident in a refactoring or "optimisation" (an off-by-one, a wrong index, a cached value, a swapped argument, a dropped special case, a too-tight bound, state leaking between calls, ...). Each change must need something SPECIFIC to manifest - a particular unusual-but-valid input, a multi-step sequence of calls, a particular combination of options, two cooperating sites that each look fine alone - not something ordinary use would expose at once (that is why the existing tests stay green). Do not break the build, do not edit tests or reference outputs, do not add obviously malicious code (no "if x == 12345"). Keep each change small (a few lines).{HINT}

How to build and test (use at most 6 parallel jobs so other work on this machine is not starved):
  cd {wt} && cmake -G Ninja -B _build -DCMAKE_BUILD_TYPE=RelWithDebInfo -DCMAKE_CXX_FLAGS=-Wno-error -DWB_MAKE_FORTRAN_WRAPPER=OFF . && cmake --build _build -j6 && ctest --test-dir _build -j6 --timeout 900
The unmodified tree passes all tests except `grid_fault_edge_limits`, which fails already and is to be ignored. A change is acceptable only if the set of passing tests is unchanged.
The library is _build/lib/libWorldBuilder.a (link with -Wl,--whole-archive ... -Wl,--no-whole-archive; headers in include/ and _build/include/). The public API is in include/world_builder/world.h (World(filename, has_output_dir=false, output_dir="", seed=1); properties(point, depth, {{ {{1,0,0}}=temperature, {{2,n,0}}=composition n, {{3,n,k}}=grains, {{4,0,0}}=tag, {{5,0,0}}=velocity }}); temperature(); composition(); distance_to_plane(); the 2D variants need a "cross section" in the file). Example .wb files are in tests/gwb-dat/*.wb and cookbooks/. Cartesian query convention: model bottom at z=0, i.e. point z + depth = constant height of the surface.

For EACH change deliver into /tmp/seeded-out/{pid}/{LA}/ and /tmp/seeded-out/{pid}/{LB}/ :
  - patch.diff : `git diff` of the source change only (must apply with `git apply` to a clean checkout of the worktree's HEAD)
  - a demonstration: demo.cc (plus any .wb/.dat input files it needs, referenced relative to the demo's own directory or given as argv) - or demo.sh if the subject is a tool - that exits 0 when the property holds for its scenario and exits non-zero (printing what went wrong) when it does not; it must FAIL with the change and PASS without it, and should check the property itself (an oracle independent of the changed code), not compare against hard-coded output of the old binary where that can be avoided.
  - build_and_run.sh : takes the path of a built tree root (one containing include/, _build/include/, _build/lib/libWorldBuilder.a, _build/bin/gwb-dat ...) as $1, compiles the demo against it and runs it; exit status = demo's status.
  - NOTES.md : which mechanism is broken, what exactly is needed to make it manifest, and the evidence you gathered (ctest summary with the change; demo output with and without the change).
Verify everything yourself: demo passes on the clean tree, full ctest with the change applied shows the same passing set, demo fails with the change. When you are done, restore the worktree to a clean state (`git checkout -- .`; keep _build) and report in your final message, for {LA} and {LB}: one-paragraph description, what is needed to trigger, and the verification results. If you cannot find a second change that meets all conditions, deliver one and say so.""")
