// Rigid motions of a world file (C08) and other whole-file rewrites.
#pragma once
#include "gen.h"

namespace vf
{
  struct Motion
  {
    bool sph = false;
    double tx = 0, ty = 0, angle_deg = 0; // cartesian: rotate about the vertical by angle (counter-clockwise), then translate
    double dlon = 0;                      // spherical: common longitude offset in degrees
    std::array<double, 2> apply(double x, double y) const
    {
      if (sph) return {{x + dlon, y}};
      const double a = angle_deg * DEG, c = std::cos(a), s = std::sin(a);
      return {{c * x - s * y + tx, s * x + c * y + ty}};
    }
    bool identity() const { return sph ? dlon == 0 : (tx == 0 && ty == 0 && angle_deg == 0); }
  };

  inline void move_point(J &p, const Motion &m)
  {
    const auto q = m.apply(p[0].num(), p[1].num());
    p[0] = J(q[0]);
    p[1] = J(q[1]);
  }
  inline void move_depth_surface(J &d, const Motion &m)
  {
    // number, or [[value, [[x,y],...]], ...]
    if (!d.is_arr()) return;
    for (auto &entry : d.a)
      if (entry.is_arr() && entry.size() == 2 && entry[1].is_arr())
        for (auto &p : entry[1].a) if (p.is_arr() && p.size() == 2) move_point(p, m);
  }
  inline void move_models(J &models, const Motion &m)
  {
    if (!models.is_arr()) return;
    for (auto &mod : models.a)
      {
        if (!mod.is_obj()) continue;
        if (mod.has("ridge coordinates"))
          for (auto &ridge : mod["ridge coordinates"].a)
            for (auto &p : ridge.a) move_point(p, m);
        if (mod.has("min depth")) move_depth_surface(mod["min depth"], m);
        if (mod.has("max depth")) move_depth_surface(mod["max depth"], m);
      }
  }
  inline void move_feature_like(J &f, const Motion &m)
  {
    for (const char *k : {"temperature models", "composition models", "grains models", "velocity models"})
      if (f.has(k)) move_models(f[k], m);
    if (f.has("segments"))
      for (auto &seg : f["segments"].a)
        for (const char *k : {"temperature models", "composition models", "grains models", "velocity models"})
          if (seg.has(k)) move_models(seg[k], m);
  }

  inline J move_world(const J &root, const Motion &m)
  {
    J r = root;
    if (r.has("cross section")) for (auto &p : r["cross section"].a) move_point(p, m);
    if (r.has("features"))
      for (auto &f : r["features"].a)
        {
          if (f.has("coordinates")) for (auto &p : f["coordinates"].a) move_point(p, m);
          if (f.has("dip point")) move_point(f["dip point"], m);
          if (f.has("min depth")) move_depth_surface(f["min depth"], m);
          if (f.has("max depth")) move_depth_surface(f["max depth"], m);
          move_feature_like(f, m);
          if (f.has("sections")) for (auto &s : f["sections"].a) move_feature_like(s, m);
          // the orientation of a plume's ellipses is given clockwise from the Y axis: a counter-clockwise
          // rotation of the world by `angle` turns every ellipse by the same angle
          if (!m.sph && f.has("rotation angles"))
            for (auto &a : f["rotation angles"].a)
              {
                double v = std::fmod(a.num() - m.angle_deg, 360.0);
                if (v < 0) v += 360.0;
                a = J(v);
              }
        }
    return r;
  }

  inline J move_query(const g::Frame &fr, const J &q, const Motion &m)
  {
    const auto p = m.apply(q.at("nat")[0].num(), q.at("nat")[1].num());
    return g::make_query(fr, p[0], p[1], q.at("depth").num());
  }
} // namespace vf
