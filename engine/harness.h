// Shared harness: choice sources, rapidcheck glue, evidence counters, replay mode, known findings.
//
// Every sub-check of a property is a pair
//     gen   : Chooser& -> J        (a *case*: plain data, serialisable)
//     check : const J& -> Result   (runs the real code against the oracle)
// so a failing (shrunk) case can be written to disk and re-run later without rapidcheck.
#pragma once
#include "json.h"

#include <rapidcheck.h>

#include <algorithm>
#include <chrono>
#include <cstdlib>
#include <functional>
#include <iostream>
#include <set>
#include <unistd.h>
#include <signal.h>
#include <sys/wait.h>
#include <poll.h>

namespace vf
{
  // ------------------------------------------------------------------ choice source
  struct Chooser
  {
    virtual ~Chooser() = default;
    // inclusive range; implementations shrink towards lo
    virtual long long range(long long lo, long long hi) = 0;
    bool flip() { return range(0, 1) == 1; }
    // true with probability pct/100; shrinks towards false
    bool chance(int pct) { return range(0, 99) >= 100 - pct; }
    size_t index(size_t n) { return static_cast<size_t>(range(0, static_cast<long long>(n) - 1)); }
    // uniform real with 2^40 resolution, shrinks towards lo
    double real(double lo, double hi) { return lo + (hi - lo) * (static_cast<double>(range(0, (1ll << 40))) / static_cast<double>(1ll << 40)); }
    // real on a lattice lo + k*step (exactly representable when lo, step are)
    double lattice(double lo, double hi, double step) { const long long n = static_cast<long long>(std::floor((hi - lo) / step)); return lo + static_cast<double>(range(0, n)) * step; }
    // log-uniform positive real
    double logreal(double lo, double hi) { return std::exp(real(std::log(lo), std::log(hi))); }
    template <class T> const T &pick(const std::vector<T> &v) { return v[index(v.size())]; }
    template <class T> T pick(std::initializer_list<T> l) { std::vector<T> v(l); return v[index(v.size())]; }
  };

  struct RcChooser : Chooser
  {
    long long range(long long lo, long long hi) override
    {
      if (hi <= lo) return lo;
      return *rc::gen::resize(100, rc::gen::inRange<long long>(lo, hi + 1));
    }
  };

  // deterministic splitmix64 stream; only ever seeded from a value that is itself part of the case
  struct SeedChooser : Chooser
  {
    uint64_t x;
    explicit SeedChooser(uint64_t seed) : x(seed) {}
    uint64_t next() { uint64_t z = (x += 0x9e3779b97f4a7c15ull); z = (z ^ (z >> 30)) * 0xbf58476d1ce4e5b9ull; z = (z ^ (z >> 27)) * 0x94d049bb133111ebull; return z ^ (z >> 31); }
    long long range(long long lo, long long hi) override
    {
      if (hi <= lo) return lo;
      const uint64_t span = static_cast<uint64_t>(hi - lo) + 1;
      return lo + static_cast<long long>(next() % span);
    }
  };

  // ------------------------------------------------------------------ results
  struct Result
  {
    bool ok = true;
    bool discard = false;          // case outside the domain of the oracle (counted)
    bool nontrivial = false;       // by the property's stated rule
    std::string msg;               // failure description
    std::string signature;         // root-cause classification of a failure (for known findings)
    std::vector<std::string> classes;
    uint64_t inner = 0;            // number of individual comparisons performed in this case
    uint64_t inner_nt = 0;         // ... of which non-trivial
    static Result fail(const std::string &sig, const std::string &m) { Result r; r.ok = false; r.signature = sig; r.msg = m; return r; }
  };

  struct Sub
  {
    std::string name;
    std::string rule;                       // what is generated / what is non-trivial
    int base_cases;                         // quick-tier case count (thorough multiplies)
    std::function<J(Chooser &)> gen;
    std::function<Result(const J &)> check;
    int max_size = 100;
    bool scale = true;                      // false: base_cases is not multiplied by the tier factor (complete enumerations)
    bool isolate = false;                   // run every case in a forked child: no state survives from one case to the next,
                                            // a crash of the code under test becomes an ordinary (shrinkable) failure
    double case_timeout_s = 120;            // isolated cases only: a case running longer is killed and counted as a discard ("timeout")
  };

  struct SubStats
  {
    uint64_t evaluations = 0, nontrivial = 0, discards = 0, inner = 0, inner_nt = 0, known_hits = 0;
    std::set<uint64_t> nt_hashes;
    std::map<std::string, uint64_t> classes;
    std::vector<J> samples;
    std::string status = "pass";
    std::string failure_file, failure_msg, failure_sig;
    std::map<std::string, uint64_t> known_by_sig;
    std::vector<std::string> exception_samples;
  };

  struct Known { std::string property, status, signature, what; };

  inline std::vector<Known> load_known(const std::string &path)
  {
    std::vector<Known> k;
    std::ifstream f(path);
    std::string line;
    while (std::getline(f, line))
      {
        if (line.empty() || line[0] == '#') continue;
        J j = J::parse(line);
        Known kn;
        kn.property = j.at("property").str();
        kn.status = j.at("status").str();
        kn.signature = j.at("signature").str();
        kn.what = j.at("what").str();
        k.push_back(kn);
      }
    return k;
  }

  inline std::string env(const char *n, const std::string &d) { const char *v = std::getenv(n); return v ? std::string(v) : d; }

  inline void write_file(const std::string &path, const std::string &text)
  {
    std::ofstream f(path, std::ios::binary | std::ios::trunc);
    f << text;
  }

  inline J result_to_json(const Result &r)
  {
    J j = J::obj();
    j["ok"] = r.ok; j["discard"] = r.discard; j["nontrivial"] = r.nontrivial; j["msg"] = r.msg; j["signature"] = r.signature;
    j["inner"] = J(static_cast<double>(r.inner)); j["inner_nt"] = J(static_cast<double>(r.inner_nt));
    J cl = J::arr();
    for (auto &c : r.classes) cl.push(J(c));
    j["classes"] = cl;
    return j;
  }
  inline Result result_from_json(const J &j)
  {
    Result r;
    r.ok = j.at("ok").boolean(); r.discard = j.at("discard").boolean(); r.nontrivial = j.at("nontrivial").boolean();
    r.msg = j.at("msg").str(); r.signature = j.at("signature").str();
    r.inner = static_cast<uint64_t>(j.at("inner").num()); r.inner_nt = static_cast<uint64_t>(j.at("inner_nt").num());
    for (auto &c : j.at("classes").a) r.classes.push_back(c.str());
    return r;
  }

  // Evaluate one case in a forked child. The parent never calls into the code under test, so every
  // case starts from the same pristine process image.
  inline Result run_isolated(const Sub &s, const J &c)
  {
    int fd[2];
    if (pipe(fd) != 0) throw std::runtime_error("pipe failed");
    const pid_t pid = fork();
    if (pid < 0) throw std::runtime_error("fork failed");
    if (pid == 0)
      {
        close(fd[0]);
        Result r;
        try { r = s.check(c); }
        catch (const std::exception &e) { r = Result(); r.discard = true; r.classes.push_back(std::string("exception: ") + std::string(e.what()).substr(0, 90)); r.msg = std::string(e.what()).substr(0, 400); }
        const std::string text = result_to_json(r).dump();
        size_t off = 0;
        while (off < text.size()) { const ssize_t k = ::write(fd[1], text.data() + off, text.size() - off); if (k <= 0) break; off += static_cast<size_t>(k); }
        close(fd[1]);
        _exit(0);
      }
    close(fd[1]);
    std::string text;
    char buf[65536];
    bool timed_out = false;
    const auto t0 = std::chrono::steady_clock::now();
    for (;;)
      {
        struct pollfd pfd{fd[0], POLLIN, 0};
        const int pr = ::poll(&pfd, 1, 1000);
        if (pr > 0)
          {
            const ssize_t k = ::read(fd[0], buf, sizeof buf);
            if (k <= 0) break;
            text.append(buf, static_cast<size_t>(k));
          }
        if (std::chrono::duration<double>(std::chrono::steady_clock::now() - t0).count() > s.case_timeout_s) { timed_out = true; ::kill(pid, SIGKILL); break; }
      }
    close(fd[0]);
    int st = 0;
    waitpid(pid, &st, 0);
    if (timed_out) { Result r; r.discard = true; r.classes.push_back("timeout(killed)"); r.signature = "timeout"; return r; }
    if (WIFSIGNALED(st) || text.empty())
      {
        const int sig = WIFSIGNALED(st) ? WTERMSIG(st) : 0;
        return Result::fail("crash-signal-" + std::to_string(sig), "the process running this case died with signal " + std::to_string(sig) + " (" + (sig == 11 ? "SIGSEGV" : sig == 6 ? "SIGABRT" : sig == 8 ? "SIGFPE" : "signal") + ")");
      }
    return result_from_json(J::parse(text));
  }

  // ------------------------------------------------------------------ main driver of one executable
  inline int run_main(const std::string &property, int argc, char **argv, std::vector<Sub> subs)
  {
    std::string replay, only;
    for (int i = 1; i < argc; ++i)
      {
        std::string a = argv[i];
        if (a == "--replay" && i + 1 < argc) replay = argv[++i];
        else if (a == "--sub" && i + 1 < argc) only = argv[++i];
        else if (a == "--list") { for (auto &s : subs) std::cout << s.name << "\n"; return 0; }
      }
    const std::vector<Known> known_all = load_known(env("VERIF_KNOWN", "/verif/known_findings.jsonl"));
    // a signature may name several independent root causes joined by '+'; it is "known" only if every part is listed
    auto split_sig = [](const std::string &sig) {
      std::vector<std::string> parts; size_t a = 0;
      for (;;) { const size_t b = sig.find('+', a); parts.push_back(sig.substr(a, b == std::string::npos ? b : b - a)); if (b == std::string::npos) break; a = b + 1; }
      return parts;
    };
    auto is_known = [&](const std::string &sig) {
      for (const auto &part : split_sig(sig))
        {
          bool found = false;
          for (auto &k : known_all) if (k.status == "known" && k.property == property && k.signature == part) found = true;
          if (!found) return false;
        }
      return true;
    };

    if (!replay.empty())
      {
        J c = J::parse_file(replay);
        const std::string sub = c.at("sub").str();
        for (auto &s : subs)
          if (s.name == sub)
            {
              Result r;
              try { r = s.isolate ? run_isolated(s, c.at("case")) : s.check(c.at("case")); }
              catch (const std::exception &e) { std::cout << "REPLAY-PASS property=" << property << " sub=" << sub << " (discarded: exception " << e.what() << ")\n"; return 0; }
              if (r.ok) { std::cout << "REPLAY-PASS property=" << property << " sub=" << sub << (r.discard ? " (discarded)" : "") << "\n"; return 0; }
              std::cout << "REPLAY-FAIL property=" << property << " sub=" << sub << " signature=" << r.signature << (is_known(r.signature) ? " known=1" : " known=0") << "\n" << r.msg << "\n";
              return 1;
            }
        std::cout << "REPLAY-ERROR unknown sub " << sub << "\n";
        return 2;
      }

    const uint64_t seed = std::strtoull(env("VERIF_SEED", "1").c_str(), nullptr, 10);
    const double mult = std::atof(env("VERIF_MULT", "1").c_str());
    const std::string outdir = env("VERIF_OUT", ".");
    const std::string tag = env("VERIF_TAG", "p0");
    const auto t0 = std::chrono::steady_clock::now();
    std::map<std::string, SubStats> stats;
    int failed = 0;

    for (auto &s : subs)
      {
        if (!only.empty() && s.name != only) continue;
        SubStats &st = stats[s.name];
        rc::detail::TestParams params;
        params.seed = seed * 1000003ull + fnv1a(s.name) % 1000003ull;
        params.maxSuccess = std::max(1, static_cast<int>(s.base_cases * (s.scale ? mult : 1.0)));
        params.maxSize = s.max_size;
        params.maxDiscardRatio = 20;
        rc::detail::TestMetadata md;
        md.id = property + "." + s.name;
        md.description = md.id;
        const std::string failfile = outdir + "/" + tag + "." + s.name + ".fail.json";
        ::unlink(failfile.c_str());
        const std::string curfile = outdir + "/" + tag + ".current.json";
        bool shrinking_seen_failure = false;
        int shrink_runs = 0;
        auto shrink_t0 = std::chrono::steady_clock::now();
        const int shrink_max_runs = std::atoi(env("VERIF_SHRINK_RUNS", "400").c_str());
        const double shrink_max_s = std::atof(env("VERIF_SHRINK_SECONDS", "25").c_str());
        auto body = [&]() {
          if (shrinking_seen_failure)
            {
              // bounded shrinking: once the budget is used up every further candidate "passes", so
              // rapidcheck stops at the smallest failing case found so far (already saved on disk)
              if (++shrink_runs > shrink_max_runs || std::chrono::duration<double>(std::chrono::steady_clock::now() - shrink_t0).count() > shrink_max_s) return;
            }
          RcChooser ch;
          J c = s.gen(ch);
          Result r;
          {
            // the case about to run, so that a crash of the code under test leaves a replayable file behind
            J cur = J::obj();
            cur["property"] = property; cur["sub"] = s.name; cur["signature"] = "crash"; cur["message"] = "process died while running this case"; cur["case"] = c;
            write_file(curfile, cur.dump());
          }
          try { r = s.isolate ? run_isolated(s, c) : s.check(c); }
          catch (const std::exception &e)
            {
              // an exception escaping a check body means the generated case is outside what the check can
              // judge (e.g. the library rejected the world): counted as a discard, visible in the evidence
              r = Result();
              r.discard = true;
              r.classes.push_back(std::string("exception: ") + std::string(e.what()).substr(0, 90));
              if (!shrinking_seen_failure && st.exception_samples.size() < 3) st.exception_samples.push_back(std::string(e.what()).substr(0, 400));
            }
          if (r.discard && !r.msg.empty() && !shrinking_seen_failure && st.exception_samples.size() < 3) st.exception_samples.push_back(r.msg);
          if (!shrinking_seen_failure)
            {
              st.evaluations++;
              st.inner += r.inner;
              st.inner_nt += r.inner_nt;
              for (auto &cl : r.classes) st.classes[cl]++;
              if (r.discard) st.discards++;
              if (r.nontrivial && !r.discard)
                {
                  st.nontrivial++;
                  st.nt_hashes.insert(fnv1a(c.dump()));
                  if (st.samples.size() < 3) st.samples.push_back(c);
                }
            }
          if (r.discard) RC_DISCARD("outside oracle domain");
          if (!r.ok)
            {
              if (is_known(r.signature))
                {
                  if (!shrinking_seen_failure) { st.known_hits++; for (const auto &part : split_sig(r.signature)) st.known_by_sig[part]++; }
                  return; // listed finding: counted, search continues behind it
                }
              // while shrinking, only a failure with the signature of the original one counts: otherwise the shrinker slides into
              // whatever else fails for the degenerate inputs it produces and the report no longer describes what the search found
              if (shrinking_seen_failure && r.signature != st.failure_sig) return;
              if (!shrinking_seen_failure) shrink_t0 = std::chrono::steady_clock::now();
              shrinking_seen_failure = true;
              J f = J::obj();
              f["property"] = property;
              f["sub"] = s.name;
              f["signature"] = r.signature;
              f["message"] = r.msg;
              f["case"] = c;
              write_file(failfile, f.dump(1));
              st.failure_msg = r.msg;
              st.failure_sig = r.signature;
              RC_FAIL(r.msg);
            }
        };
        const auto result = rc::detail::checkTestable(body, md, params);
        if (result.template is<rc::detail::SuccessResult>()) st.status = "pass";
        else if (result.template is<rc::detail::FailureResult>())
          {
            st.status = "fail";
            st.failure_file = failfile;
            failed++;
            std::cerr << "[" << md.id << "] FAIL: " << st.failure_msg << "\n";
          }
        else if (result.template is<rc::detail::GaveUpResult>())
          {
            st.status = "gaveup";
            std::cerr << "[" << md.id << "] gave up: " << result.template get<rc::detail::GaveUpResult>().description << "\n";
          }
        else
          {
            st.status = "error";
            st.failure_msg = result.template get<rc::detail::Error>().description;
            std::cerr << "[" << md.id << "] error: " << st.failure_msg << "\n";
          }
      }

    // evidence fragment
    J out = J::obj();
    out["property"] = property;
    out["seed"] = J(static_cast<double>(seed));
    out["wall_s"] = std::chrono::duration<double>(std::chrono::steady_clock::now() - t0).count();
    J js = J::obj();
    for (auto &s : subs)
      {
        if (!stats.count(s.name)) continue;
        SubStats &st = stats[s.name];
        J e = J::obj();
        e["status"] = st.status;
        e["rule"] = s.rule;
        e["evaluations"] = J(static_cast<double>(st.evaluations));
        e["nontrivial"] = J(static_cast<double>(st.nontrivial));
        e["discards"] = J(static_cast<double>(st.discards));
        e["comparisons"] = J(static_cast<double>(st.inner));
        e["comparisons_nontrivial"] = J(static_cast<double>(st.inner_nt));
        e["known_finding_hits"] = J(static_cast<double>(st.known_hits));
        J kb = J::obj();
        for (auto &p : st.known_by_sig) kb[p.first] = J(static_cast<double>(p.second));
        e["known_by_signature"] = kb;
        J cl = J::obj();
        for (auto &p : st.classes) cl[p.first] = J(static_cast<double>(p.second));
        e["classes"] = cl;
        J hs = J::arr();
        for (auto h : st.nt_hashes) { char b[24]; std::snprintf(b, sizeof b, "%016llx", static_cast<unsigned long long>(h)); hs.push(J(std::string(b))); }
        e["nt_hashes"] = hs;
        J sm = J::arr();
        for (auto &c : st.samples) sm.push(c);
        e["samples"] = sm;
        J xs = J::arr();
        for (auto &x : st.exception_samples) xs.push(J(x));
        e["exception_samples"] = xs;
        if (st.status == "fail")
          {
            e["failure_file"] = st.failure_file;
            e["failure_signature"] = st.failure_sig;
            e["failure_message"] = st.failure_msg;
          }
        if (st.status == "error") e["failure_message"] = st.failure_msg;
        js[s.name] = e;
      }
    out["subs"] = js;
    ::unlink((outdir + "/" + tag + ".current.json").c_str());
    write_file(outdir + "/" + tag + ".frag.json", out.dump(1));
    return failed ? 1 : 0;
  }

  // ------------------------------------------------------------------ small numeric helpers
  inline bool close_rel(double a, double b, double rel, double abs_ = 0)
  {
    if (a == b) return true;
    if (std::isnan(a) || std::isnan(b)) return false;
    return std::fabs(a - b) <= abs_ + rel * std::max(std::fabs(a), std::fabs(b));
  }
  inline bool same_bits(double a, double b) { return std::memcmp(&a, &b, sizeof a) == 0; }
  inline std::string fmt(double v) { char b[40]; std::snprintf(b, sizeof b, "%.17g", v); return b; }
} // namespace vf
