#!/usr/bin/env python3
"""Rewrites the generated tables of DESIGN.md §7 (between <!-- BEGIN:x --> / <!-- END:x --> markers) from
evidence/*.json (sub-checks), known_findings.jsonl (findings) and seeded/*/meta.json (detection matrix)."""
import json, os, re, glob

ROOT = os.path.dirname(os.path.dirname(os.path.abspath(__file__)))


def esc(t):
    return t.replace("|", "/").replace("\n", " ")


def subchecks():
    rows = ["| property | sub-check | cases in the last quick run | non-trivial | generated domain / rule |", "|---|---|---|---|---|"]
    for f in sorted(glob.glob(os.path.join(ROOT, "evidence", "C*.json"))):
        e = json.load(open(f))
        cov = e.get("coverage", {})
        subs = cov.get("subchecks") or {}
        subs = [dict(v, name=k) for k, v in subs.items()] if isinstance(subs, dict) else subs
        rules = dict()
        for part in re.split(r"; (?=[a-z_0-9]+: )", cov.get("rule", "")):
            if ": " in part:
                k, v = part.split(": ", 1)
                rules[k] = v
        for s in subs:
            rows.append("| %s | `%s` | %s | %s | %s |" % (e["property_id"], s["name"], s.get("evaluations", "?"), s.get("nontrivial", "?"), esc(rules.get(s["name"], ""))[:420]))
        fz = cov.get("fuzz")
        if fz:
            for t, n in fz.get("executions", {}).items():
                c = fz.get("counters", {}).get(t, {})
                rows.append("| %s | fuzz `%s` | %s executions | %s worlds constructed, %s queries | libFuzzer + ASan + UBSan, oracle inside the target (engine/fuzz/%s.cc) |" % (e["property_id"], t, n, c.get("constructed", "?"), c.get("queries", "?"), t))
    return "\n".join(rows)


def findings():
    rows = ["| property | status | commit | signature | what failed |", "|---|---|---|---|---|"]
    seen = set()
    for l in open(os.path.join(ROOT, "known_findings.jsonl")):
        l = l.strip()
        if not l or l.startswith("#"):
            continue
        r = json.loads(l)
        sig = r["signature"]
        root = sig.split(":")[0] if r["status"] == "known" and ":" in sig and not sig.startswith("ubsan") else sig
        key = (r["property"], r["status"], root, r["what"][:60])
        if key in seen:
            continue
        seen.add(key)
        rows.append("| %s | %s | %s | `%s` | %s |" % (r["property"], r["status"], r.get("commit", "")[:8], esc(root)[:60] + ("…" if root != sig else ""), esc(r["what"])[:330]))
    return "\n".join(rows)


def matrix():
    p = os.path.join(ROOT, "seeded", "MATRIX.md")
    if not os.path.exists(p):
        return "(run `bin/mutmatrix`)"
    t = open(p).read().split("\n")
    return "\n".join(l for l in t if l.startswith("|")) + "\n\n(`seeded/MATRIX.md`, written by `bin/mutmatrix`; per change the full record is `seeded/<id>/meta.json`.)"


def main():
    p = os.path.join(ROOT, "DESIGN.md")
    s = open(p).read()
    for name, fn in (("subchecks", subchecks), ("findings", findings), ("matrix", matrix)):
        s = re.sub(r"(<!-- BEGIN:%s -->\n).*?(<!-- END:%s -->)" % (name, name), lambda m: m.group(1) + fn() + "\n" + m.group(2), s, flags=re.S)
    open(p, "w").write(s)


if __name__ == "__main__":
    main()
