// Minimal JSON value used for (a) building world files, (b) case / replay files, (c) evidence.
// Independent of the rapidjson copy vendored in the code under test.
#pragma once
#include <cmath>
#include <cstdint>
#include <cstdio>
#include <cstring>
#include <fstream>
#include <map>
#include <sstream>
#include <stdexcept>
#include <string>
#include <utility>
#include <vector>

struct JStyle
  {
    int indent = 0;            // 0 = compact
    bool exp_numbers = false;  // print numbers as %.17e where that is exact
    bool comments = false;     // sprinkle // and /* */ comments (world builder files allow them)
    bool trailing_zero = false;// print integral numbers as 12.0
    std::vector<unsigned> key_perm_seed; // non-empty => permute object keys deterministically
  };

struct J
{
  using Style = JStyle;
  enum T { Null, Bool, Num, Str, Arr, Obj, Raw };
  T t = Null;
  bool b = false;
  double n = 0;
  std::string s; // Str or Raw token
  std::vector<J> a;
  std::vector<std::pair<std::string, J>> o;

  J() = default;
  J(bool v) : t(Bool), b(v) {}
  J(double v) : t(Num), n(v) {}
  J(int v) : t(Num), n(v) {}
  J(unsigned v) : t(Num), n(v) {}
  J(long v) : t(Num), n(static_cast<double>(v)) {}
  J(unsigned long v) : t(Num), n(static_cast<double>(v)) {}
  J(long long v) : t(Num), n(static_cast<double>(v)) {}
  J(unsigned long long v) : t(Num), n(static_cast<double>(v)) {}
  J(const char *v) : t(Str), s(v) {}
  J(const std::string &v) : t(Str), s(v) {}
  static J arr() { J j; j.t = Arr; return j; }
  static J obj() { J j; j.t = Obj; return j; }
  static J raw(const std::string &tok) { J j; j.t = Raw; j.s = tok; return j; }
  static J arr(std::initializer_list<J> l) { J j; j.t = Arr; j.a = l; return j; }
  template <class V> static J from_vec(const V &v) { J j = arr(); for (const auto &e : v) j.a.emplace_back(e); return j; }

  bool is_null() const { return t == Null; }
  bool is_obj() const { return t == Obj; }
  bool is_arr() const { return t == Arr; }
  bool is_num() const { return t == Num; }
  bool is_str() const { return t == Str; }

  J &push(J v) { if (t == Null) t = Arr; a.push_back(std::move(v)); return a.back(); }
  bool has(const std::string &k) const { for (auto &p : o) if (p.first == k) return true; return false; }
  J &operator[](const std::string &k)
  {
    if (t == Null) t = Obj;
    for (auto &p : o) if (p.first == k) return p.second;
    o.emplace_back(k, J());
    return o.back().second;
  }
  const J &at(const std::string &k) const
  {
    for (auto &p : o) if (p.first == k) return p.second;
    throw std::runtime_error("J: missing key " + k);
  }
  const J &get(const std::string &k, const J &dflt) const
  {
    for (auto &p : o) if (p.first == k) return p.second;
    return dflt;
  }
  void erase(const std::string &k)
  {
    for (size_t i = 0; i < o.size(); ++i) if (o[i].first == k) { o.erase(o.begin() + static_cast<long>(i)); return; }
  }
  J &operator[](size_t i) { return a.at(i); }
  const J &operator[](size_t i) const { return a.at(i); }
  size_t size() const { return t == Arr ? a.size() : o.size(); }
  double num() const { if (t == Bool) return b ? 1 : 0; if (t != Num) throw std::runtime_error("J: not a number"); return n; }
  long long i64() const { return static_cast<long long>(num()); }
  const std::string &str() const { if (t != Str) throw std::runtime_error("J: not a string"); return s; }
  bool boolean() const { if (t == Num) return n != 0; if (t != Bool) throw std::runtime_error("J: not a bool"); return b; }
  std::vector<double> nums() const { std::vector<double> v; for (auto &e : a) v.push_back(e.num()); return v; }

  // ---- output -------------------------------------------------------------------

  static std::string num_to_string(double v, const Style &st, bool force_int)
  {
    char buf[64];
    if (std::isnan(v)) return "NaN";
    if (std::isinf(v)) return v > 0 ? "Infinity" : "-Infinity";
    const bool integral = std::floor(v) == v && std::fabs(v) < 1e15;
    if (integral && (force_int || !(st.exp_numbers || st.trailing_zero)))
      {
        std::snprintf(buf, sizeof buf, "%lld", static_cast<long long>(v));
        return buf;
      }
    if (integral && st.trailing_zero && !st.exp_numbers)
      {
        std::snprintf(buf, sizeof buf, "%lld.0", static_cast<long long>(v));
        return buf;
      }
    if (integral && st.exp_numbers)
      {
        // integral value re-spelled with an exponent: digits without trailing zeros + "e<zeros>" (parsed exactly by any reader)
        std::snprintf(buf, sizeof buf, "%lld", static_cast<long long>(v));
        std::string d = buf;
        int z = 0;
        while (d.size() > 1 && d.back() == '0') { d.pop_back(); ++z; }
        return v == 0 ? std::string("0e0") : d + "e" + std::to_string(z);
      }
    // non-integral numbers have exactly one spelling (shortest-safe 17 significant digits) in every style:
    // the library's JSON reader is not correctly rounded for long digit strings, so re-spelling them is
    // not a pure formatting change
    std::snprintf(buf, sizeof buf, "%.17g", v);
    return buf;
  }
  static std::string quote(const std::string &s)
  {
    std::string r = "\"";
    for (unsigned char c : s)
      {
        if (c == '"') r += "\\\"";
        else if (c == '\\') r += "\\\\";
        else if (c == '\n') r += "\\n";
        else if (c == '\t') r += "\\t";
        else if (c == '\r') r += "\\r";
        else if (c < 0x20) { char b[8]; std::snprintf(b, sizeof b, "\\u%04x", c); r += b; }
        else r += static_cast<char>(c);
      }
    return r + "\"";
  }
  // keys whose values must be printed as integers whatever the style (schema type "integer")
  static bool int_key(const std::string &k)
  {
    return k == "random number seed" || k == "number of points in spline" || k == "compositions" || k == "coordinate" || k == "orientation operation"
           || k == "dim" || k == "n_cell_x" || k == "n_cell_y" || k == "n_cell_z" || k == "compositions_n";
  }
  void dump_to(std::string &out, const Style &st, int level, bool force_int, unsigned &cnt) const
  {
    auto nl = [&](int lv) { if (st.indent) { out += '\n'; out.append(static_cast<size_t>(lv * st.indent), ' '); } };
    switch (t)
      {
        case Null: out += "null"; break;
        case Bool: out += b ? "true" : "false"; break;
        case Num: out += num_to_string(n, st, force_int); break;
        case Str: out += quote(s); break;
        case Raw: out += s; break;
        case Arr:
          out += '[';
          for (size_t i = 0; i < a.size(); ++i)
            {
              if (i) out += st.indent ? ", " : ",";
              a[i].dump_to(out, st, level + 1, force_int, cnt);
            }
          out += ']';
          break;
        case Obj:
        {
          out += '{';
          std::vector<size_t> order(o.size());
          for (size_t i = 0; i < o.size(); ++i) order[i] = i;
          if (!st.key_perm_seed.empty())
            {
              unsigned x = st.key_perm_seed[0] * 2654435761u + static_cast<unsigned>(level) * 97u + static_cast<unsigned>(o.size());
              for (size_t i = order.size(); i > 1; --i)
                {
                  x = x * 1664525u + 1013904223u;
                  std::swap(order[i - 1], order[(x >> 8) % i]);
                }
            }
          for (size_t k = 0; k < order.size(); ++k)
            {
              const auto &p = o[order[k]];
              if (k) out += ',';
              nl(level + 1);
              if (st.comments && (++cnt % 3 == 0)) { out += (cnt % 2) ? "/* c" : "// c"; out += std::to_string(cnt); out += (cnt % 2) ? " */" : "\n"; nl(level + 1); }
              out += quote(p.first);
              out += st.indent ? ": " : ":";
              p.second.dump_to(out, st, level + 1, force_int || int_key(p.first), cnt);
            }
          if (!o.empty()) nl(level);
          out += '}';
          break;
        }
      }
  }
  std::string dump(const Style &st = Style()) const { std::string out; unsigned cnt = 0; dump_to(out, st, 0, false, cnt); return out; }
  std::string dump(int indent) const { Style st; st.indent = indent; return dump(st); }

  // ---- input (strict JSON + NaN/Infinity tokens, enough for our own files) --------
  struct P
  {
    const char *p, *e;
    void ws() { while (p < e && (*p == ' ' || *p == '\n' || *p == '\t' || *p == '\r')) ++p; }
    [[noreturn]] void fail(const char *m) { throw std::runtime_error(std::string("J parse: ") + m); }
    J val()
    {
      ws();
      if (p >= e) fail("eof");
      if (*p == '{')
        {
          ++p; J j = obj(); ws();
          if (p < e && *p == '}') { ++p; return j; }
          for (;;)
            {
              ws(); if (p >= e || *p != '"') fail("key");
              std::string k = strv(); ws();
              if (p >= e || *p != ':') fail(":");
              ++p; j.o.emplace_back(k, val()); ws();
              if (p < e && *p == ',') { ++p; continue; }
              if (p < e && *p == '}') { ++p; return j; }
              fail("obj");
            }
        }
      if (*p == '[')
        {
          ++p; J j = arr(); ws();
          if (p < e && *p == ']') { ++p; return j; }
          for (;;)
            {
              j.a.push_back(val()); ws();
              if (p < e && *p == ',') { ++p; continue; }
              if (p < e && *p == ']') { ++p; return j; }
              fail("arr");
            }
        }
      if (*p == '"') return J(strv());
      if (!std::strncmp(p, "true", 4)) { p += 4; return J(true); }
      if (!std::strncmp(p, "false", 5)) { p += 5; return J(false); }
      if (!std::strncmp(p, "null", 4)) { p += 4; return J(); }
      if (!std::strncmp(p, "NaN", 3)) { p += 3; return J(std::nan("")); }
      if (!std::strncmp(p, "Infinity", 8)) { p += 8; return J(HUGE_VAL); }
      if (!std::strncmp(p, "-Infinity", 9)) { p += 9; return J(-HUGE_VAL); }
      char *end = nullptr;
      double v = std::strtod(p, &end);
      if (end == p) fail("value");
      p = end;
      return J(v);
    }
    std::string strv()
    {
      ++p; std::string r;
      while (p < e && *p != '"')
        {
          if (*p == '\\')
            {
              ++p; if (p >= e) fail("esc");
              switch (*p)
                {
                  case 'n': r += '\n'; break; case 't': r += '\t'; break; case 'r': r += '\r'; break;
                  case 'b': r += '\b'; break; case 'f': r += '\f'; break;
                  case 'u':
                  {
                    if (e - p < 5) fail("u");
                    unsigned c = static_cast<unsigned>(std::strtoul(std::string(p + 1, p + 5).c_str(), nullptr, 16));
                    p += 4;
                    if (c < 0x80) r += static_cast<char>(c);
                    else if (c < 0x800) { r += static_cast<char>(0xC0 | (c >> 6)); r += static_cast<char>(0x80 | (c & 0x3F)); }
                    else { r += static_cast<char>(0xE0 | (c >> 12)); r += static_cast<char>(0x80 | ((c >> 6) & 0x3F)); r += static_cast<char>(0x80 | (c & 0x3F)); }
                    break;
                  }
                  default: r += *p;
                }
              ++p;
            }
          else r += *p++;
        }
      if (p >= e) fail("str");
      ++p;
      return r;
    }
  };
  static J parse(const std::string &text)
  {
    P ps{text.data(), text.data() + text.size()};
    J j = ps.val();
    ps.ws();
    if (ps.p != ps.e) ps.fail("trailing");
    return j;
  }
  static J parse_file(const std::string &path)
  {
    std::ifstream f(path);
    if (!f) throw std::runtime_error("cannot open " + path);
    std::stringstream ss; ss << f.rdbuf();
    return parse(ss.str());
  }
};

inline uint64_t fnv1a(const std::string &s, uint64_t h = 1469598103934665603ull)
{
  for (unsigned char c : s) { h ^= c; h *= 1099511628211ull; }
  return h;
}
